"""Shared scenario machinery for C18 / C19 / C22 / C34 (spec/Outcome.tla, spec/OutcomeTrace.tla).

* `enumerate_scenarios(tier)`  — TLC enumerates the abstract scenario space of Outcome.tla; every record carries
  the contract's verdict (`allowed`), the transcription's prediction (`algo`) and the clauses where the
  transcription deviates from the contract (`diff`).
* `concretise(rec)`            — abstract facts -> config files + SQL files (building blocks below).
* `record(recs, ...)`          — runs every scenario through the real entry points (click CliRunner in-process for
  path and stdin, sqlfluff.lint / sqlfluff.fix, Linter.lint_paths, a sample as real subprocesses) under
  function-boundary recorders; nothing here judges anything.
* `recording(tier, seed, run)` — cached under /verif/.cache keyed by src digest + tier + seed + spec/harness digest
  + the emitted records, so the four checks pay for the runs once and a cache made from another source tree is
  never read.
* `traces(...)`                — projection of the completed records for OutcomeTrace.tla (the oracle).
"""
from __future__ import annotations

import ast
import fcntl
import hashlib
import json
import logging
import os
import random
import re
import shutil
import subprocess
import sys
import time
from typing import Any, Dict, List, Optional, Tuple

from . import sq
from .par import pmap
from .tlc import SPEC_DIR, VERIF, MachineryError, cfg_text, run_tlc, scratch

CACHE = os.path.join(VERIF, ".cache")
FAMILIES = ("single", "pair", "size", "limit", "cfg", "usage", "variant")

# ------------------------------------------------------------------------------------------ building blocks
RULES = "LT01,LT02,LT05,LT09,AM04"          # lint / fix scenarios
DECOY_RULES = "CP01"                        # what the root config selects when the real selection lives elsewhere
PAD = "-- é ü ñ 日本語 ß\n"                  # multi-byte: bytes != chars (C34)
FIX1 = "SELECT a  FROM b;"                  # LT01, one changing pass
FIX2 = ("SELECT aaaaaaaaaaaaaaaaaaaaaaaaaaaaaa, bbbbbbbbbbbbbbbbbbbbbbbbbbbbbbbbbbbbbbbb, "
        "cccccccccccccccccccccccccccccccccccccc FROM t;")   # LT05+LT09 then LT02: two changing passes
UNFIX = "SELECT * FROM b;"                  # AM04 has no fix
UNFIX_FMT = "-- " + "x" * 100               # LT05 on a comment-only line has no fix (format's rule list has no AM04)
ERRLINE = {
    "tmp_fatal": "{% if %}",
    "tmp_soft": "SELECT c FROM {{ undefined_var }}d;",
    "prs_raise": "SELECT (c FROM d;",
    "prs_section": "SELECT c FROM d WHERE;",
}
FIX_CODES = "LT01,LT02,LT05,LT09"


def format_rules() -> str:
    """The rule list `sqlfluff format` hard-codes, read from the source under test (used for the API leg)."""
    src = sq.read(os.path.join(sq.REPO, "src", "sqlfluff", "cli", "commands.py"))
    m = re.search(r'kwargs\["rules"\]\s*=\s*(\((?:.|\n)*?\n    \))', src)
    if m:
        try:
            return str(ast.literal_eval(m.group(1)))
        except Exception:
            pass
    return ("capitalisation,layout,ambiguous.union,convention.not_equal,convention.coalesce,"
            "convention.select_trailing_comma,convention.is_null,jinja.padding,structure.distinct,")


def _lint_block(f: dict, cmd: str) -> Tuple[List[str], List[str]]:
    """Lines for the lint fact of a file and the rule codes involved."""
    if f["lint"] == "none":
        return ["SELECT a FROM b;"], []
    if f["lint"] == "fixable":
        line, codes = (FIX2, ["LT05", "LT09"]) if f["passes"] >= 2 else (FIX1, ["LT01"])
        if f["lsup"] == "noqa":
            line += " -- noqa: " + ",".join(codes)
        return [line], codes
    if cmd == "format":
        if f["lsup"] == "noqa":
            return ["SELECT a FROM b;", "-- noqa: disable=LT05", UNFIX_FMT, "-- noqa: enable=LT05"], ["LT05"]
        return ["SELECT a FROM b;", UNFIX_FMT], ["LT05"]
    return [UNFIX + (" -- noqa: AM04" if f["lsup"] == "noqa" else "")], ["AM04"]


def concretise(rec: dict) -> dict:
    """Abstract scenario -> {root_cfg, files:[{rel,text,nested_cfg,nbytes,nchars}], byte_limit, char_limit}."""
    cmd, src, item = rec["cmd"], rec["cfgsrc"], rec["cfgitem"]
    files = []
    root_extra: List[str] = []
    for i, f in enumerate(rec["files"], start=1):
        lines, codes = _lint_block(f, cmd)
        warn: List[str] = []
        ign: List[str] = []
        if f["lint"] != "none" and f["lsup"] == "warning":
            warn += codes
        if f["lint"] != "none" and f["lsup"] == "ignore":
            ign.append("linting")
        if f["err"] != "none":
            el = ERRLINE[f["err"]]
            kind = "TMP" if f["err"].startswith("tmp") else "PRS"
            if f["esup"] == "noqa":
                el += f" -- noqa: {kind}"
            elif f["esup"] == "warning":
                warn.append(kind)
            elif f["esup"] == "ignore":
                ign.append("templating" if kind == "TMP" else "parsing")
            lines.append(el)
        second = len(rec["files"]) == 2 and i == 2 and rec["family"] == "size"
        if not second:
            lines.append(PAD.rstrip("\n"))
        settings: Dict[str, str] = {}
        if cmd != "format":
            settings["rules"] = RULES
        if warn:
            settings["warnings"] = ",".join(warn)
        if ign:
            settings["ignore"] = ",".join(ign)
        here = {k: v for k, v in settings.items() if item in ("all", k)} if src != "root" else {}
        rest = {k: v for k, v in settings.items() if k not in here}
        if "rules" in here:
            rest["rules"] = DECOY_RULES
        if len(rec["files"]) == 2 and src == "root":
            # two files sharing the root config: settings are per run, the union is used
            pass
        root_extra += [f"{k} = {v}" for k, v in rest.items()]
        nested = None
        head: List[str] = []
        if src == "nested" and here:
            nested = "[sqlfluff]\n" + "".join(f"{k} = {v}\n" for k, v in here.items())
        elif src == "inline":
            head = [f"-- sqlfluff:{k}:{v}" for k, v in here.items()]
        text = "\n".join(head + lines) + "\n"
        rel = f"d{i}/q{i}.sql"
        files.append({"rel": rel, "text": text, "nested_cfg": nested,
                      "nbytes": len(text.encode("utf-8")), "nchars": len(text)})
    # root settings: de-duplicate, later files win only if equal keys agree (pairs use nested configs)
    seen: Dict[str, str] = {}
    for ln in root_extra:
        k, v = ln.split(" = ", 1)
        if k in seen and seen[k] != v:
            if k in ("warnings", "ignore"):
                seen[k] = ",".join(sorted(set(seen[k].split(",")) | set(v.split(","))))
            continue
        seen[k] = v
    usage = rec.get("usage", "none")
    dialect = {"unknown_dialect_cfg": ["dialect = nosuchdialect"], "no_dialect": [], "unknown_dialect_opt": []}.get(usage, ["dialect = ansi"])
    cfg = ["[sqlfluff]"] + dialect + ["templater = nosuchtemplater" if usage == "bad_templater" else "templater = jinja",
                                      "encoding = utf-8"]
    cfg += [f"{k} = {v}" for k, v in seen.items()]
    if rec["feu"]:
        cfg.append("fix_even_unparsable = True")
    if rec["skipfail"]:
        cfg.append("large_file_skip_fail = True")
    if rec["runaway"]:
        cfg.append(f"runaway_limit = {rec['runaway']}")
    if rec.get("vlimit"):
        cfg.append(f"render_variant_limit = {rec['vlimit']}")
    byte_limit = char_limit = None
    for f in files:
        f["byte_limit"] = 0
    if rec["limkind"] != "none":
        f0 = files[0]
        n = f0["nbytes"] if rec["limkind"] == "byte" else f0["nchars"]
        size = rec["files"][0]["size"]
        lim = {"under": n + 1, "at": n, "over": n - 1}[size]
        limsrc = rec.get("limsrc", "root")
        if rec["limkind"] == "byte" and limsrc != "root":
            # the effective limit of file 1 comes from the .sqlfluff in its own directory; the root config holds a
            # limit on the other side of the file's size (every other file keeps the root's)
            root_lim = n + 1000 if limsrc == "nested_lower" else n - 10
            assert all(g["nbytes"] < root_lim for g in files[1:]), "second file must stay under the root limit"
            byte_limit = lim
            cfg.append(f"large_file_skip_byte_limit = {root_lim}")
            f0["nested_cfg"] = (f0["nested_cfg"] or "[sqlfluff]\n") + f"large_file_skip_byte_limit = {lim}\n"
            f0["byte_limit"] = lim
            for g in files[1:]:
                g["byte_limit"] = root_lim
        elif rec["limkind"] == "byte":
            byte_limit = lim
            for g in files:
                g["byte_limit"] = lim
            cfg.append(f"large_file_skip_byte_limit = {lim}")
        else:
            char_limit = lim
            cfg.append(f"large_file_skip_char_limit = {lim}")
    return {"root_cfg": "\n".join(cfg) + "\n", "files": files, "byte_limit": byte_limit, "char_limit": char_limit}


def materialise(root: str, plan: dict) -> None:
    with open(os.path.join(root, ".sqlfluff"), "w", encoding="utf-8") as fh:
        fh.write(plan["root_cfg"])
    for f in plan["files"]:
        p = os.path.join(root, f["rel"])
        os.makedirs(os.path.dirname(p), exist_ok=True)
        with open(p, "wb") as fh:
            fh.write(f["text"].encode("utf-8"))
        np = os.path.join(os.path.dirname(p), ".sqlfluff")
        if f["nested_cfg"]:
            with open(np, "w", encoding="utf-8") as fh:
                fh.write(f["nested_cfg"])
        elif os.path.exists(np):
            os.remove(np)


def _reset_files(root: str, plan: dict) -> None:
    for f in plan["files"]:
        with open(os.path.join(root, f["rel"]), "wb") as fh:
            fh.write(f["text"].encode("utf-8"))


def _read_files(root: str, plan: dict) -> List[str]:
    out = []
    for f in plan["files"]:
        with open(os.path.join(root, f["rel"]), "rb") as fh:
            out.append(fh.read().decode("utf-8", errors="backslashreplace"))
    return out


# ------------------------------------------------------------------------------------------ recorders
REC: Dict[str, Any] = {"results": [], "touched": [], "limit": [], "flag": False, "installed": False}


class _LimitFilter(logging.Filter):
    def filter(self, record: logging.LogRecord) -> bool:
        try:
            if "Loop limit on fixes reached" in record.getMessage():
                REC["flag"] = True
        except Exception:
            pass
        return True


def install_recorders() -> None:
    """Wrappers at existing function boundaries (no source change); they only observe."""
    if REC["installed"]:
        return
    from sqlfluff.core.linter.linter import Linter

    o_paths, o_wrapped = Linter.lint_paths, Linter.lint_string_wrapped
    o_lex = Linter.__dict__["_lex_templated_file"].__func__
    o_lfp = Linter.__dict__["lint_fix_parsed"].__func__

    def lint_paths(self, *a, **k):
        r = o_paths(self, *a, **k)
        REC["results"].append(r)
        return r

    def lint_string_wrapped(self, *a, **k):
        r = o_wrapped(self, *a, **k)
        REC["results"].append(r)
        return r

    def _lex_templated_file(templated_file, config):
        REC["touched"].append(getattr(templated_file, "fname", None))
        return o_lex(templated_file, config)

    def lint_fix_parsed(cls, tree, config, rule_pack, fix=False, fname=None, templated_file=None, formatter=None):
        REC["touched"].append(fname)
        REC["flag"] = False
        out = o_lfp(cls, tree, config, rule_pack, fix=fix, fname=fname, templated_file=templated_file,
                    formatter=formatter)
        if REC["flag"]:
            REC["limit"].append(fname)
        REC["flag"] = False
        return out

    Linter.lint_paths = lint_paths
    Linter.lint_string_wrapped = lint_string_wrapped
    Linter._lex_templated_file = staticmethod(_lex_templated_file)
    Linter.lint_fix_parsed = classmethod(lint_fix_parsed)
    # vf.sq silences the sqlfluff loggers by raising their level above CRITICAL; the loop-limit observation needs
    # the linter logger's WARNING records to reach the filter (the logger keeps sq's NullHandler and propagate=False,
    # so nothing is printed)
    lg = logging.getLogger("sqlfluff.linter")
    lg.setLevel(logging.WARNING)
    lg.addFilter(_LimitFilter())
    _cleanup_logging()
    REC["installed"] = True


def _rec_reset() -> None:
    REC["results"].clear()
    REC["touched"].clear()
    REC["limit"].clear()
    REC["flag"] = False


def _idx_of(names: List[Optional[str]], plan: dict, string_entry: bool) -> List[int]:
    out = set()
    for n in names:
        if n is None:
            continue
        if string_entry:
            out.add(1)
            continue
        nn = os.path.normpath(n)
        for i, f in enumerate(plan["files"], start=1):
            if nn == os.path.normpath(f["rel"]) or nn.endswith(os.sep + os.path.normpath(f["rel"])):
                out.add(i)
    return sorted(out)


def _vrec(v: dict) -> list:
    fixes = [[fx.get("type"), (fx.get("edit") or ""), fx.get("start_line_no"), fx.get("start_line_pos"),
              fx.get("end_line_no"), fx.get("end_line_pos")] for fx in (v.get("fixes") or [])]
    return [v.get("code"), v.get("start_line_no"), v.get("start_line_pos"), v.get("description"),
            bool(v.get("warning")), fixes]


def _from_result(plan: dict, string_entry: bool) -> dict:
    """Skipped count and per-file violation records from the LintingResult the entry point produced."""
    if not REC["results"]:
        return {"skipped": None, "viols": None, "fixes_left": None}
    res = REC["results"][-1]
    viols: Dict[str, list] = {}
    left: Dict[str, int] = {}
    for r in res.as_records():
        idx = _idx_of([r["filepath"]], plan, string_entry)
        key = str(idx[0]) if idx else r["filepath"]
        viols[key] = [_vrec(v) for v in r["violations"]]
        left[key] = sum(1 for v in r["violations"] if v.get("fixes"))
    return {"skipped": int(res.files_skipped), "viols": viols, "fixes_left": left}


_NULL = logging.NullHandler()


def _cleanup_logging() -> None:
    """Drop the stream handlers each CLI invocation adds (they point at CliRunner's closed streams) and keep
    the code under test from falling back to logging.lastResort (stderr noise); the limit filter stays."""
    lg = logging.getLogger("sqlfluff")
    for hd in list(lg.handlers):
        lg.removeHandler(hd)
    lg.addHandler(_NULL)
    logging.getLogger("sqlfluff.linter").setLevel(logging.WARNING)


# ------------------------------------------------------------------------------------------ entry points
def _obs(entry: str) -> dict:
    return {"entry": entry, "exit": None, "texts": None, "modified": [], "viols": None, "fixes_left": None,
            "skipped": None, "touched": None, "limit": [], "exc": None}


def _modified(texts: List[str], plan: dict) -> List[int]:
    return [i for i, (t, f) in enumerate(zip(texts, plan["files"]), start=1) if t != f["text"]]


def _usage_args(rec: dict, paths: List[str], stdin: bool) -> Tuple[List[str], List[str]]:
    """Path arguments and extra options of a usage-error scenario."""
    u = rec.get("usage", "none")
    extra: List[str] = []
    if u == "missing_path" and not stdin:
        paths = ["d1/nosuch.sql"]
    elif u == "unknown_dialect_opt":
        extra = ["--dialect", "nosuchdialect"]
    elif u == "bad_option":
        extra = ["--no-such-option"]
    elif u == "format_rules":
        extra = ["--rules", "LT01"]
    return paths, extra


def run_cli(root: str, rec: dict, plan: dict, stdin: bool) -> dict:
    from click.testing import CliRunner
    from sqlfluff.cli.commands import cli

    o = _obs("cli_stdin" if stdin else "cli_path")
    _reset_files(root, plan)
    _rec_reset()
    args = [rec["cmd"]]
    paths, extra = _usage_args(rec, [f["rel"] for f in plan["files"]], stdin)
    if stdin:
        args += ["-", "--stdin-filename", plan["files"][0]["rel"]]
    else:
        args += paths
    if rec["cmd"] == "lint":
        args += ["--format", "json"]
        if rec["nofail"]:
            args.append("--nofail")
    if rec["procs"] > 1 and not stdin:
        args += ["--processes", str(rec["procs"])]
    args.append("--disable-progress-bar")
    args += extra
    try:
        r = CliRunner().invoke(cli, args, input=plan["files"][0]["text"] if stdin else None)
    finally:
        _cleanup_logging()
    o["exit"] = int(r.exit_code)
    if r.exception is not None and not isinstance(r.exception, SystemExit):
        o["exc"] = type(r.exception).__name__ + ": " + str(r.exception)[:200]
    if stdin:
        # a usage error prints a message, not a fixed text: there is no output text to compare
        fixed_out = rec["cmd"] != "lint" and rec.get("usage", "none") == "none"
        o["texts"] = [r.stdout] if fixed_out else [plan["files"][0]["text"]]
    else:
        o["texts"] = _read_files(root, plan)
    o["modified"] = _modified(o["texts"], plan)
    o.update(_from_result(plan, stdin))
    if rec["cmd"] == "lint" and o["exc"] is None and rec.get("usage", "none") == "none":
        # what the user sees: the JSON document on stdout
        try:
            doc = json.loads(r.stdout)
            shown = {}
            for d in doc:
                idx = _idx_of([d["filepath"]], plan, stdin)
                shown[str(idx[0]) if idx else d["filepath"]] = [_vrec(v) for v in d["violations"]]
            o["viols"] = shown
        except Exception as e:  # not JSON: keep what the result object said and note it
            o["exc"] = f"lint --format json printed no JSON ({type(e).__name__})"
    if rec["procs"] == 1 or stdin:
        o["touched"] = _idx_of(REC["touched"], plan, stdin)
        o["limit"] = _idx_of(REC["limit"], plan, stdin)
    return o


def _api_config(rec: dict, rel: Optional[str]):
    from sqlfluff.core import FluffConfig

    ov: Dict[str, Any] = {}
    if rec["cmd"] == "format":
        ov["rules"] = format_rules()
        ov["fix_even_unparsable"] = False
    cfg = FluffConfig.from_root(overrides=ov or None, require_dialect=False)
    if rel:
        cfg = cfg.make_child_from_path(rel, require_dialect=False)
    return cfg


def run_api_string(root: str, rec: dict, plan: dict) -> dict:
    """sqlfluff.lint / sqlfluff.fix with the configuration the CLI would build for that path."""
    import sqlfluff

    o = _obs("api")
    _rec_reset()
    text = plan["files"][0]["text"]
    cfg = _api_config(rec, plan["files"][0]["rel"])
    try:
        if rec["cmd"] == "lint":
            vs = sqlfluff.lint(text, config=cfg)
            o["texts"] = [text]
            o["viols"] = {"1": [_vrec(v) for v in vs]}
        else:
            o["texts"] = [sqlfluff.fix(text, config=cfg)]
    except Exception as e:
        o["exc"] = type(e).__name__ + ": " + str(e)[:200]
        o["texts"] = [text]
    o["modified"] = _modified(o["texts"], plan)
    fr = _from_result(plan, True)
    o["skipped"], o["fixes_left"] = fr["skipped"], fr["fixes_left"]
    if rec["cmd"] != "lint":
        o["viols"] = None
    o["touched"] = _idx_of(REC["touched"], plan, True)
    o["limit"] = _idx_of(REC["limit"], plan, True)
    return o


def run_api_paths(root: str, rec: dict, plan: dict) -> dict:
    """Linter.lint_paths as a library user calls it (fix => apply_fixes with the configured flag)."""
    from sqlfluff.core import Linter

    o = _obs("api_paths")
    _reset_files(root, plan)
    _rec_reset()
    cfg = _api_config(rec, None)
    paths = tuple(f["rel"] for f in plan["files"])
    try:
        lnt = Linter(config=cfg)
        if rec["cmd"] == "lint":
            lnt.lint_paths(paths, processes=rec["procs"])
        else:
            lnt.lint_paths(paths, fix=True, apply_fixes=True, processes=rec["procs"],
                           fix_even_unparsable=bool(cfg.get("fix_even_unparsable")))
    except Exception as e:
        o["exc"] = type(e).__name__ + ": " + str(e)[:200]
    o["texts"] = _read_files(root, plan)
    o["modified"] = _modified(o["texts"], plan)
    o.update(_from_result(plan, False))
    if rec["procs"] == 1:
        o["touched"] = _idx_of(REC["touched"], plan, False)
        o["limit"] = _idx_of(REC["limit"], plan, False)
    return o


def run_subprocess(root: str, rec: dict, plan: dict, stdin: bool) -> dict:
    o = _obs("sub_stdin" if stdin else "sub_path")
    _reset_files(root, plan)
    args = [sys.executable, "-m", "sqlfluff", rec["cmd"]]
    paths, extra = _usage_args(rec, [f["rel"] for f in plan["files"]], stdin)
    if stdin:
        args += ["-", "--stdin-filename", plan["files"][0]["rel"]]
    else:
        args += paths
    if rec["cmd"] == "lint":
        args += ["--format", "json"]
        if rec["nofail"]:
            args.append("--nofail")
    if rec["procs"] > 1 and not stdin:
        args += ["--processes", str(rec["procs"])]
    args.append("--disable-progress-bar")
    args += extra
    env = dict(os.environ)
    env["PYTHONPATH"] = os.path.join(sq.REPO, "src") + os.pathsep + env.get("PYTHONPATH", "")
    p = subprocess.run(args, cwd=root, env=env, capture_output=True, timeout=300,
                       input=plan["files"][0]["text"].encode("utf-8") if stdin else None)
    o["exit"] = int(p.returncode)
    out = p.stdout.decode("utf-8", errors="backslashreplace")
    if stdin:
        fixed_out = rec["cmd"] != "lint" and rec.get("usage", "none") == "none"
        o["texts"] = [out] if fixed_out else [plan["files"][0]["text"]]
    else:
        o["texts"] = _read_files(root, plan)
    o["modified"] = _modified(o["texts"], plan)
    if rec["cmd"] == "lint" and rec.get("usage", "none") == "none":
        try:
            shown = {}
            for d in json.loads(out):
                idx = _idx_of([d["filepath"]], plan, stdin)
                shown[str(idx[0]) if idx else d["filepath"]] = [_vrec(v) for v in d["violations"]]
            o["viols"] = shown
        except Exception as e:
            o["exc"] = f"lint --format json printed no JSON ({type(e).__name__})"
    return o


def default_variant_limit() -> int:
    src = sq.read(os.path.join(sq.REPO, "src", "sqlfluff", "core", "default_config.cfg"))
    m = re.search(r"^render_variant_limit\s*=\s*(\d+)", src, flags=re.M)
    return int(m.group(1)) if m else 5


def observe_facts(root: str, rec: dict, plan: dict) -> List[dict]:
    """Which violations each file has, with their flags: a lint-mode run of the path pipeline under NEUTRAL pipeline
    settings (size limits off, default render_variant_limit; lint mode, so no loop limit).  This double-checks that
    the building blocks show the planned facts; the scenario's own pipeline settings (limits, variant limit,
    runaway limit) are what the entry-point runs are judged on, so they must not decide which errors a file "has".

    Pure projection of LintedFile.violations; `suppressed` = the violation's own ignore flag or dropped by the mask.
    """
    from sqlfluff.core import FluffConfig, Linter
    from sqlfluff.core.errors import SQLLintError, SQLParseError, SQLTemplaterError

    ov: Dict[str, Any] = {"large_file_skip_byte_limit": 0, "large_file_skip_char_limit": 0,
                          "render_variant_limit": default_variant_limit()}
    if rec["cmd"] == "format":
        ov["rules"] = format_rules()
    _reset_files(root, plan)
    out = []
    for f in plan["files"]:
        lnt = Linter(config=FluffConfig.from_root(overrides=ov, require_dialect=False))
        res = lnt.lint_paths((f["rel"],), processes=1)
        files = res.paths[0].files
        if not files:
            out.append({"V": [], "notree": True, "unobserved": True})
            continue
        lf = files[0]
        kept_list = lf.get_violations(filter_warning=False)

        def kept(v) -> bool:
            return any(k is v for k in kept_list)

        V = []
        for n, v in enumerate(lf.violations, start=1):
            kind = ("TMP" if isinstance(v, SQLTemplaterError) else "PRS" if isinstance(v, SQLParseError)
                    else "LINT" if isinstance(v, SQLLintError) else "LXR")
            V.append({"id": n, "kind": kind, "suppressed": bool(v.ignore) or not kept(v), "viaNoqa": not v.ignore and not kept(v),
                      "warning": bool(v.warning), "fixable": bool(getattr(v, "fixable", False)),
                      "code": v.rule_code()})
        out.append({"V": V, "notree": lf.tree is None})
    return out


# ------------------------------------------------------------------------------------------ recording
def record_one(job: Tuple[dict, bool]) -> dict:
    rec, sub = job
    install_recorders()
    plan = concretise(rec)
    root = scratch("scn")
    cwd = os.getcwd()
    try:
        materialise(root, plan)
        os.chdir(root)
        t0 = time.time()
        out: Dict[str, Any] = {"id": rec["id"], "plan": plan, "facts": None, "obs": [], "error": None}
        try:
            usage = rec.get("usage", "none") != "none"
            # a usage error stops before any file is looked at: the facts of the (never linted) file are moot
            out["facts"] = ([{"V": [], "notree": False, "usage": True} for _ in plan["files"]] if usage
                            else observe_facts(root, rec, plan))
            strings = len(rec["files"]) == 1 and rec["limkind"] != "byte"
            if usage:
                out["obs"].append(run_cli(root, rec, plan, stdin=False))
                if rec["usage"] != "missing_path":
                    out["obs"].append(run_cli(root, rec, plan, stdin=True))
                strings = False
            elif rec["procs"] > 1:
                # the recorder's pool workers are daemonic and cannot own a multiprocessing pool themselves:
                # parallel runs are made as real `python -m sqlfluff` subprocesses only
                out["obs"].append(run_subprocess(root, rec, plan, stdin=False))
                sub = strings = False
            else:
                out["obs"].append(run_cli(root, rec, plan, stdin=False))
                out["obs"].append(run_api_paths(root, rec, plan))
            if strings:
                out["obs"].append(run_cli(root, rec, plan, stdin=True))
                out["obs"].append(run_api_string(root, rec, plan))
            if sub:
                out["obs"].append(run_subprocess(root, rec, plan, stdin=False))
                if strings:
                    out["obs"].append(run_subprocess(root, rec, plan, stdin=True))
        except Exception as e:  # harness-side failure: reported as machinery failure by the caller
            import traceback
            out["error"] = traceback.format_exc()[-1500:]
        out["wall"] = round(time.time() - t0, 3)
        return out
    finally:
        os.chdir(cwd)
        shutil.rmtree(root, ignore_errors=True)


def _digest_files(paths: List[str]) -> str:
    h = hashlib.sha256()
    for p in paths:
        with open(p, "rb") as fh:
            h.update(fh.read())
    return h.hexdigest()[:16]


def enumerate_scenarios(tier: str):
    """One TLC run over all families.  Returns (TLCRun, records with ids)."""
    # VF_OUTCOME_FAMILY (development only): restrict the enumeration to one family to screen mutations quickly
    fams = set((os.environ.get("VF_OUTCOME_FAMILY") or ",".join(FAMILIES)).split(","))
    m = run_tlc("Outcome", cfg_text(constants={"Families": fams, "Wide": tier != "quick"},
                                    invariants=["ContractSane"]),
                workers=min(4, int(os.environ.get("VF_PROCS", "4") or 4)), timeout=1500)
    recs = [r for r in m.records if isinstance(r, dict) and "allowed" in r]
    recs.sort(key=lambda r: json.dumps({k: v for k, v in r.items() if k not in ("allowed", "algo", "diff")}, sort_keys=True))
    for n, r in enumerate(recs):
        r["id"] = f"s{n}"
    return m, recs


def counterexample(tier: str, invariant: str, families: Tuple[str, ...]):
    """TLC itself reporting that the transcribed counters do not refine one clause of the contract
    (expected while the corresponding defect is open): returns (TLCRun, counterexample text)."""
    run = run_tlc("Outcome", cfg_text(constants={"Families": set(families), "Wide": tier != "quick"},
                                      invariants=[invariant]),
                  workers=1, timeout=900, expect_violation=True)
    txt = ""
    if run.violated:
        i = run.stdout.find("Error: Invariant")
        txt = run.stdout[i:i + 1200]
    return run, txt


def recording(tier: str, seed: int, recs: List[dict]) -> Tuple[List[dict], str]:
    """Observations for every scenario, cached per (source tree, tier, seed, spec+harness, emitted records)."""
    os.makedirs(CACHE, exist_ok=True)
    key = hashlib.sha256(json.dumps([
        sq.src_digest(), tier, seed,
        _digest_files([os.path.join(SPEC_DIR, "Outcome.tla"), os.path.abspath(__file__)]),
        hashlib.sha256(json.dumps(recs, sort_keys=True).encode()).hexdigest(),
    ]).encode()).hexdigest()[:24]
    path = os.path.join(CACHE, f"scenario-{key}.json")
    lock = open(os.path.join(CACHE, "scenario.lock"), "w")
    fcntl.flock(lock, fcntl.LOCK_EX)
    try:
        if os.path.exists(path):
            with open(path) as fh:
                data = json.load(fh)
            if data.get("key") == key and len(data["runs"]) == len(recs):
                return data["runs"], "hit"
        rnd = random.Random(seed)
        nsub = 10 if tier == "quick" else 60
        # subprocess sample: one per deviation class the model predicts, the rest seeded
        chosen, seen = set(), set()
        for r in recs:
            k = (tuple(sorted(r["diff"])), r["cmd"])
            if r["diff"] and k not in seen and len(r["files"]) == 1 and len(chosen) < nsub // 2:
                seen.add(k)
                chosen.add(r["id"])
        pool = [r["id"] for r in recs if r["id"] not in chosen and r["procs"] == 1]
        rnd.shuffle(pool)
        chosen |= set(pool[: max(0, nsub - len(chosen))])
        runs = pmap(record_one, [(r, r["id"] in chosen) for r in recs], chunksize=4)
        bad = [r for r in runs if r["error"]]
        if bad:
            raise MachineryError(f"scenario recorder failed on {bad[0]['id']}:\n{bad[0]['error']}")
        tmp = path + f".tmp{os.getpid()}"
        with open(tmp, "w") as fh:
            json.dump({"key": key, "runs": runs}, fh)
        os.replace(tmp, path)
        # prune old recordings (keep the 6 newest)
        olds = sorted((f for f in os.listdir(CACHE) if f.startswith("scenario-") and f.endswith(".json")),
                      key=lambda f: os.path.getmtime(os.path.join(CACHE, f)))
        for f in olds[:-6]:
            try:
                os.remove(os.path.join(CACHE, f))
            except OSError:
                pass
        return runs, "miss"
    finally:
        fcntl.flock(lock, fcntl.LOCK_UN)
        lock.close()
