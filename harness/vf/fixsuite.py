"""Inputs and shared driver of the "fix suite" (C12 C13 C14 C15 C17).

A *part* is a named list of cases {id, sql, dialect, rules, configs?, over?, mode}; every case is recorded
once by fixrec.record_case (in worker processes) and cached per (source digest, part, tier, seed).  The
property checks pick the parts they need and have the traces decided by spec/FixTrace.tla with their own
`Prop`; this module only builds inputs, strips what a given Prop does not look at (size), and turns TLC's
[id, step, clause] verdicts into violations with a narrow signature (diagnosis re-runs the one failing case).
"""
from __future__ import annotations

import os
import random
import re
from typing import Any, Callable, Dict, List, Optional, Tuple

from . import fixrec, sq
from .core import Report
from .fixinputs import PARTS, _templated
from .par import pmap
from .tlc import MachineryError, Validation, validate_traces

HERE = os.path.dirname(os.path.abspath(__file__))
DEPS = [os.path.join(HERE, "fixrec.py"), os.path.join(HERE, "fixinputs.py")]

# ------------------------------------------------------------------------------------ recording (cached)
def _record_unit(unit: List[dict]) -> List[dict]:
    out = []
    for case in unit:
        t = fixrec.record_case(case)
        t["case"] = case
        out.append(t)
    return out


def record_cases(cases: List[dict]) -> List[dict]:
    """Record in worker processes; cases sharing a config travel together (a FluffConfig costs ~0.4 s)."""
    import json

    groups: Dict[str, List[int]] = {}
    for i, c in enumerate(cases):
        key = json.dumps([c.get("dialect"), c.get("rules"), c.get("configs"), c.get("over")], sort_keys=True)
        groups.setdefault(key, []).append(i)
    units: List[List[int]] = []
    for key in sorted(groups):
        idx = groups[key]
        for j in range(0, len(idx), 6):
            units.append(idx[j: j + 6])
    # heaviest units first so the pool does not end on a straggler; ties keep the sorted-key order
    units.sort(key=lambda u: -sum(len(cases[i]["sql"]) for i in u))
    res = pmap(_record_unit, [[cases[i] for i in u] for u in units], chunksize=1)
    out: List[Optional[dict]] = [None] * len(cases)
    for u, rs in zip(units, res):
        for i, r in zip(u, rs):
            out[i] = r
    return out  # type: ignore


def part_traces(name: str, tier: str, seed: int) -> Tuple[List[dict], str]:
    return fixrec.cached(name, tier, seed, lambda: record_cases(PARTS[name](tier, seed)), DEPS)


def wanted(parts: List[str]) -> List[str]:
    """VF_ONLY_PARTS=a,b restricts a check to some parts (development / mutation experiments only)."""
    only = os.environ.get("VF_ONLY_PARTS")
    if not only:
        return parts
    sel = [p for p in parts if p in only.split(",")]
    return sel


# ------------------------------------------------------------------------------------ what each Prop needs (size only)
_META = ("fixed", "fixed2", "case", "texts", "status", "changed_text", "ntok")


def slim(trace: dict, prop: str) -> dict:
    t = {k: v for k, v in trace.items() if k not in _META}
    t.setdefault("reach0", [])
    if prop in ("C13", "C17", "ENGINE"):       # no token clause
        t["events"] = [dict(e, toks=fixrec.NOTOKS) if "toks" in e else e for e in t["events"]]
    elif prop == "C12":
        t = _slim_c12(t)
    return t


def _slim_c12(t: dict) -> dict:
    """Keep token lists only where RelexStable reads them: the trees the first root run adopted last / started
    with (the final tree is one of them) and the Relex event.  Which one is final is TLC's business."""
    evs = t["events"]
    end = next((i for i, e in enumerate(evs) if e["ev"] == "FixEnd"), len(evs) - 1)
    final_tree = evs[end]["tree"] if evs else None
    out = []
    for i, e in enumerate(evs):
        if "toks" in e and e["ev"] != "Relex":
            keep = i <= end and ((e["ev"] == "Begin" and e["tree"] == final_tree) or (e["ev"] == "Apply" and e["to"] == final_tree))
            if not keep:
                e = dict(e, toks=fixrec.NOTOKS)
        out.append(e)
    t["events"] = out
    return t


def validate_sized(traces: List[dict], prop: str, budget: int = 1_000_000) -> Validation:
    """validate_traces in batches bounded by token volume (<= ~15 MB of JSON per JVM); the batches are independent
    (one TLC process each, linear in the trace), so up to six run side by side."""
    from concurrent.futures import ThreadPoolExecutor

    from .par import procs

    batches: List[List[dict]] = []
    batch: List[dict] = []
    size = 0
    for t in traces:
        w = 200 + sum(len(e["toks"]["t"]) * 2 + 12 for e in t["events"] if "toks" in e) + 12 * len(t["events"])
        if batch and size + w > budget:
            batches.append(batch)
            batch, size = [], 0
        batch.append(t)
        size += w
    if batch:
        batches.append(batch)

    def one(b: List[dict]) -> Validation:
        return validate_traces("FixTrace", b, constants={"Prop": prop}, timeout=1800, batch=10 ** 9)

    val = Validation()
    if not batches:
        return val
    with ThreadPoolExecutor(max_workers=max(1, min(6, procs(len(batches))))) as ex:
        parts = list(ex.map(one, batches))      # order kept: rejected verdicts stay in input order
    for v in parts:
        val.accepted += v.accepted
        val.rejected += v.rejected
        val.states += v.states
        val.transitions += v.transitions
        val.traces += v.traces
        val.wall_s += v.wall_s
    return val


# ------------------------------------------------------------------------------------ reading a trace (reporting only)
def adoptions(trace: dict, second: bool = False) -> List[dict]:
    """Apply events whose result the loop continued with (same rule TLC applies; used for counts/signatures)."""
    evs = trace["events"]
    out = []
    in_second = False
    for i, e in enumerate(evs):
        if e["ev"] == "Begin":
            in_second = bool(e["second"])
        if e["ev"] == "Apply" and in_second == second:
            nxt = evs[i + 1] if i + 1 < len(evs) else None
            if nxt and nxt["ev"] in ("Crawl", "FixEnd") and nxt["tree"] == e["to"] and e["to"] != e["from"] \
                    and not (nxt["ev"] == "FixEnd" and nxt["limit"]):
                out.append(e)
    return out


def rules_of(aps: List[dict]) -> str:
    return "+".join(sorted({a["rule"] for a in aps}))


def load_case_traces(parts: List[str], tier: str, seed: int, rep: Report) -> List[dict]:
    traces: List[dict] = []
    cache = {}
    for p in wanted(parts):
        tr, how = part_traces(p, tier, seed)
        cache[p] = {"cache": how, "cases": len(tr)}
        traces += tr
    rep.extra["parts"] = cache
    st: Dict[str, int] = {}
    for t in traces:
        key = t["status"].split(":")[0] if t["status"] != "ok" else ("ok" if t["clean0"] else "ok_unclean_input")
        st[key] = st.get(key, 0) + 1
    rep.extra["recording_status"] = st
    if not traces and not os.environ.get("VF_ONLY_PARTS"):
        raise MachineryError("fix suite produced no traces")
    return traces


# ------------------------------------------------------------------------------------ C->S driver shared by the checks
def decide(rep: Report, prop: str, traces: List[dict], describe: Callable[[dict, dict], Tuple[dict, str]],
           nontrivial: Callable[[dict], bool]) -> None:
    """Have FixTrace (Prop = prop) decide every recorded trace; rejected ones become violations."""
    live = [t for t in traces if t["events"]]
    ids = [t["id"] for t in live]
    if len(set(ids)) != len(ids):
        raise MachineryError("fix suite: duplicate trace ids")
    val = validate_sized([slim(t, prop) for t in live], prop)
    rep.validation(val, "FixTrace")
    rep.evaluated(2 * len(traces))
    by = {t["id"]: t for t in live}
    for t in live:
        if nontrivial(t):
            rep.nontrivial(t["id"])
    for r in val.rejected:
        t = by[r["id"]]
        sig, what = describe(t, r)
        sig.setdefault("clause", r["clause"])
        rep.violation(r["clause"], sig, what, {"case": t["case"], "verdict": r, "signature": sig})
    for t in live[:2]:
        rep.sample({"id": t["id"], "mode": t["mode"], "clean0": t["clean0"], "events": len(t["events"]),
                    "adopted": [a["rule"] for a in adoptions(t)], "input": t["case"]["sql"][:200], "fixed": (t.get("fixed") or "")[:200]})


def step_apply(trace: dict, verdict: dict) -> Optional[dict]:
    """The Apply event whose adoption was being resolved at the rejected step (step clauses)."""
    i = verdict["step"] - 1
    evs = trace["events"]
    while i > 0:
        i -= 1
        if evs[i]["ev"] == "Apply":
            return evs[i]
        if evs[i]["ev"] == "Begin":
            return None
    return None


def tok_view(trace: dict, toks: dict) -> List[Tuple[str, str, str]]:
    """(text, class, type) per non-empty token — for messages and signatures only."""
    tx, kc, kt = trace["texts"], trace["kcls"], trace["ktype"]
    return [(tx[t], kc[k], kt[k]) for t, k in zip(toks["t"], toks["k"]) if t != 0]


def first_diff(a: List[Any], b: List[Any]) -> int:
    n = min(len(a), len(b))
    for i in range(n):
        if a[i] != b[i]:
            return i
    return n


def is_templated(case: dict) -> bool:
    return _templated(case["sql"])


def template_kind(case: dict) -> str:
    """none | expr ({{ }} only) | loop ({% for %}) | block (other {% %} tags) — signature attribute."""
    s = case["sql"]
    if not _templated(s):
        return "none"
    if re.search(r"{%-?\s*for\b", s):
        return "loop"
    if "{%" in s:
        return "block"
    return "expr"


def relex_diff(t: dict):
    """(index, leaves from there, relexed tokens from there) of the first difference between the final tree of the
    first root run and the re-lexed text, or None.  For messages/signatures only; the verdict is RelexStable."""
    evs = t["events"]
    end = next((i for i, e in enumerate(evs) if e["ev"] == "FixEnd"), None)
    rel = next((e for e in evs if e["ev"] == "Relex"), None)
    if end is None or rel is None:
        return None
    final_tree = evs[end]["tree"]
    toks = None
    for e in evs[:end]:
        if (e["ev"] == "Begin" and e["tree"] == final_tree) or (e["ev"] == "Apply" and e["to"] == final_tree and e["has"]):
            toks = e["toks"]
    if toks is None:
        return None
    a = [(x[0], x[1]) for x in tok_view(t, toks)]
    b = [(x[0], x[1]) for x in tok_view(t, rel["toks"])]
    if a == b:
        return None
    i = first_diff(a, b)
    return i, tok_view(t, toks)[i:i + 4], tok_view(t, rel["toks"])[i:i + 4]


def glue_culprit(t: dict) -> Optional[str]:
    """Rule whose adopted batch first put the two leaves that re-lex as one token next to each other (read off the
    recorded token lists; None if the trace does not show it).  For messages/signatures only."""
    d = relex_diff(t)
    if not d or len(d[1]) < 2:
        return None
    a, b = d[1][0][0], d[1][1][0]

    def adjacent(toks: dict) -> bool:
        tx = [x[0] for x in tok_view(t, toks)]
        return any(tx[i] == a and tx[i + 1] == b for i in range(len(tx) - 1))

    evs = t["events"]
    prev = evs[0]["toks"] if evs and evs[0]["ev"] == "Begin" else None
    if prev is None:
        return None
    for ap in adoptions(t):
        if not ap["has"]:
            continue
        if adjacent(ap["toks"]) and not adjacent(prev):
            return ap["rule"]
        prev = ap["toks"]
    return None


def lex_signature(t: dict) -> Tuple[str, str]:
    """('merge'|'split'|'stable', 'type+type->lexertype') for the first lexical instability of the fixed tree."""
    d = relex_diff(t)
    if not d:
        return "stable", ""
    _, leaves, relexed = d
    if not leaves or not relexed:
        return "length", ""
    if len(relexed[0][0]) > len(leaves[0][0]):
        # the boundary that disappeared: the first two leaves the re-lexed token swallows
        return "merge", "+".join(x[2] for x in leaves[:2]) + "->" + relexed[0][2]
    n, acc = 1, relexed[0][0]
    while n < len(relexed) and len(acc) < len(leaves[0][0]):
        acc += relexed[n][0]
        n += 1
    return "split", leaves[0][2] + "->" + "+".join(x[2] for x in relexed[:n])


def rerun(case: dict, rules: Optional[str] = None) -> dict:
    c = dict(case)
    if rules is not None:
        c["rules"] = rules
    return fixrec.record_case(c)


_DIAG = {"n": 0}


def culprit_by_single_rule(trace: dict, bad: Callable[[dict], bool]) -> str:
    """Diagnosis only: the smallest evidence of which rule is responsible for an end-to-end clause — a rule
    that reproduces it when run alone, else the set of rules that adopted fixes in the failing run."""
    rules = sorted({a["rule"] for a in adoptions(trace)} | {a["rule"] for a in adoptions(trace, second=True)})
    if len(rules) <= 1:
        return "+".join(rules)
    _DIAG["n"] += 1
    if _DIAG["n"] > 40:          # diagnosis budget per run; beyond it the signature keeps the rule set
        return "+".join(rules)
    for r in rules:
        try:
            if bad(rerun(trace["case"], r)):
                return r
        except Exception:
            continue
    return "+".join(rules)


def replay_case(path: str, prop: str) -> int:
    import json

    with open(path) as fh:
        rec = json.load(fh)
    case = rec["case"]["case"]
    t = fixrec.record_case(case)
    t["case"] = case
    if not t["events"]:
        print(f"replay: the case is not recorded any more (status {t['status']})")
        return 0
    val = validate_sized([slim(t, prop)], prop)
    if val.rejected:
        print(f"VIOLATION property={prop} replay={path}")
        print(f"  clause={val.rejected[0]['clause']} step={val.rejected[0]['step']} input={case['sql']!r} fixed={t.get('fixed')!r}")
        return 1
    print("replay: behaviour now satisfies the contract")
    return 0
