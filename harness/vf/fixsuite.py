"""Inputs and shared driver of the "fix suite" (C12 C13 C14 C15 C17).

A *part* is a named list of cases {id, sql, dialect, rules, configs?, over?, mode}; every case is recorded
once by fixrec.record_case (in worker processes) and cached per (source digest, part, tier, seed).  The
property checks pick the parts they need and have the traces decided by spec/FixTrace.tla with their own
`Prop`; this module only builds inputs, strips what a given Prop does not look at (size), and turns TLC's
[id, step, clause] verdicts into violations with a narrow signature (diagnosis re-runs the one failing case).
"""
from __future__ import annotations

import os
import random
import re
from typing import Any, Callable, Dict, List, Optional, Tuple

from . import fixrec, sq
from .core import Report
from .par import pmap
from .tlc import MachineryError, Validation, validate_traces

HERE = os.path.dirname(os.path.abspath(__file__))
DEPS = [os.path.join(HERE, "fixrec.py"), os.path.join(HERE, "fixsuite.py")]

FORMAT_RULES = ("capitalisation,layout,ambiguous.union,convention.not_equal,convention.coalesce,"
                "convention.select_trailing_comma,convention.is_null,jinja.padding,structure.distinct")
RULESETS = {"all": "all", "layout": "layout", "format": FORMAT_RULES}
MAXCHARS = {"quick": 5000, "thorough": 12000}


# ------------------------------------------------------------------------------------ inputs
def corpus(tier: str, seed: int, per_dialect: Optional[int] = None) -> List[Tuple[str, str]]:
    """Dialect fixtures, stratified over every dialect (deterministic for a seed)."""
    cap = MAXCHARS[tier]
    items = [(p, d) for p, d in sq.dialect_corpus() if os.path.getsize(p) <= cap]
    nd = len({d for _, d in items})
    per = per_dialect or (5 if tier == "quick" else 32)
    return sq.stratified(items, lambda x: x[1], per * nd, seed)


def corpus_part(tier: str, seed: int, ruleset: str) -> List[dict]:
    mode = "layout" if ruleset == "layout" else "any"
    return [{"id": f"{ruleset}:{os.path.relpath(p, sq.FIX)}", "sql": sq.read(p), "dialect": d,
             "rules": RULESETS[ruleset], "mode": mode} for p, d in corpus(tier, seed)]


# whitespace / operator adjacency (C12, finding F15): every template is tried in every dialect
ADJ = [
    "SELECT - - 1\n", "SELECT 1 - - - 1\n", "SELECT a - -b FROM t\n", "SELECT a - - b FROM t\n", "SELECT a-(-b) FROM t\n",
    "SELECT a + +b FROM t\n", "SELECT a+ -b FROM t\n", "SELECT a*-b FROM t\n", "SELECT a * - b FROM t\n",
    "SELECT a/ *b FROM t\n", "SELECT a / *b FROM t\n", "SELECT a /b FROM t\n", "SELECT a||b FROM t\n", "SELECT a || b FROM t\n",
    "SELECT a< >b FROM t\n", "SELECT a > = b FROM t\n", "SELECT a < = b FROM t\n", "SELECT a ! = b FROM t\n",
    "SELECT a>=b,c<=d,e<>f,g!=h FROM t\n", "SELECT a . b FROM t\n", "SELECT t . * FROM t\n", "SELECT 1 . 5\n", "SELECT 1.e - 5\n",
    "SELECT(a)FROM t\n", "SELECT a FROM t WHERE(a)IN(1,2)\n", "SELECT CASE WHEN(a)THEN(1)ELSE(2)END FROM t\n",
    "SELECT DISTINCT(a) FROM t\n", "SELECT DISTINCT(a),b FROM t\n", "SELECT a FROM t WHERE NOT(a)AND(b)\n",
    "SELECT 'a' 'b'\n", "SELECT a --c\n- -b FROM t\n", "SELECT a /*c*/ - /*d*/ -b FROM t\n", "SELECT a - /**/ -b FROM t\n",
    "SELECT -\n-1\n", "SELECT a\n-\n-b FROM t\n", "SELECT (a) - (-b) FROM t\n", "SELECT a -- x\nFROM t\n", "SELECT a- -1 AS c FROM t\n",
    "SELECT - - a AS c, + - b AS d, - + c AS e FROM t\n", "SELECT a FROM t WHERE a = - - 1\n", "SELECT a FROM t WHERE a BETWEEN - - 1 AND - - 2\n",
    "SELECT a FROM t ORDER BY - - a\n", "SELECT f(- - 1, - -a) FROM t\n", "SELECT a::int, b :: int FROM t\n", "SELECT a[1] , b [ 2 ] FROM t\n",
    "SELECT a AS\"b\" FROM t\n", "SELECT 1AS b\n", "SELECT a FROM t WHERE a IN(SELECT b FROM u)AND c=1\n", "SELECT *FROM t\n",
    "SELECT a,b FROM t WHERE a=1AND b=2\n", "SELECT a FROM t LIMIT 1OFFSET 2\n", "SELECT COUNT(*)AS c FROM t\n",
]


def adjacency_part(tier: str, seed: int) -> List[dict]:
    ds = sq.dialects()
    out = []
    for i, sql in enumerate(ADJ):
        dsel = ds if tier == "thorough" else [ds[(i + j * 7 + seed) % len(ds)] for j in range(4)] + ["ansi"]
        for d in sorted(set(dsel)):
            out.append({"id": f"adj{i}:{d}", "sql": sql, "dialect": d, "rules": "all", "mode": "any"})
    return out


_SIGN_SPOTS = re.compile(r"(?<=[\w)\]]) ([-+*/]) (?=[\w(])")


def mutants_part(tier: str, seed: int) -> List[dict]:
    """Seeded corpus mutants: a unary sign right after a binary operator, whitespace squeezed/widened around
    operators and brackets (texts that still lex to the same code tokens are kept; the parse decides clean0)."""
    rnd = random.Random(seed * 7919 + 17)
    files = corpus(tier, seed, per_dialect=3 if tier == "quick" else 12)
    out = []
    for p, d in files:
        src = sq.read(p)
        spots = list(_SIGN_SPOTS.finditer(src))
        muts = []
        if spots:
            m = rnd.choice(spots)
            for name, ins in (("sign", "-"), ("signsp", "- "), ("plus", "+"), ("signsign", "- -")):
                muts.append((name, src[: m.end()] + ins + src[m.end():]))
        muts.append(("tight", re.sub(r" *([,()=<>+*/|]) *", r"\1", src)))
        muts.append(("wide", re.sub(r"([,()=<>+*/|])", r"  \1  ", src)))
        muts.append(("nlops", re.sub(r" ([-+*/]) ", r"\n\1\n", src)))
        for name, text in muts[: (3 if tier == "quick" else 8)]:
            if text != src:
                out.append({"id": f"mut:{name}:{os.path.relpath(p, sq.FIX)}", "sql": text, "dialect": d, "rules": "all", "mode": "any"})
    return out


def _templated(sql: str) -> bool:
    return "{{" in sql or "{%" in sql or "{#" in sql


def cases_own_part(tier: str, seed: int) -> List[dict]:
    """Every rule yaml case with a fail_str, under its own rule selection and configs."""
    return [{"id": f"own:{c['id']}", "sql": c["sql"], "dialect": "ansi", "rules": c["rule"], "configs": c["configs"], "mode": "any"}
            for c in sq.rule_cases() if c["kind"] == "fail"]


def cases_layout_part(tier: str, seed: int) -> List[dict]:
    """Layout-rule cases and every templated case (pass or fail), fixed with the whole layout group (own configs)."""
    out = []
    for c in sq.rule_cases():
        if (c["rule"].startswith("LT") and c["kind"] == "fail") or _templated(c["sql"]):
            out.append({"id": f"lay:{c['id']}", "sql": c["sql"], "dialect": "ansi", "rules": "layout", "configs": c["configs"], "mode": "layout"})
    return out


def cases_templated_all_part(tier: str, seed: int) -> List[dict]:
    """Templated rule cases under all rules (C13: findings F12/F13 classes)."""
    return [{"id": f"tall:{c['id']}", "sql": c["sql"], "dialect": "ansi", "rules": "all", "configs": c["configs"], "mode": "any"}
            for c in sq.rule_cases() if _templated(c["sql"])]


LAYOUT_VARIANTS: List[Tuple[str, dict]] = [
    ("comma_leading", {"layout": {"type": {"comma": {"line_position": "leading"}}}}),
    ("comma_trailing", {"layout": {"type": {"comma": {"line_position": "trailing"}}}}),
    ("op_trailing", {"layout": {"type": {"binary_operator": {"line_position": "trailing"},
                                          "comparison_operator": {"line_position": "trailing"}}}}),
    ("op_leading", {"layout": {"type": {"binary_operator": {"line_position": "leading"},
                                         "comparison_operator": {"line_position": "leading"}}}}),
    ("tab", {"indentation": {"indent_unit": "tab"}}),
    ("space2", {"indentation": {"indent_unit": "space", "tab_space_size": 2}}),
    ("len40", {"core": {"max_line_length": 40}}),
    ("len120", {"core": {"max_line_length": 120}}),
    ("implicit", {"indentation": {"allow_implicit_indents": True}}),
    ("len40_leading_tab", {"core": {"max_line_length": 40}, "indentation": {"indent_unit": "tab"},
                           "layout": {"type": {"comma": {"line_position": "leading"}}}}),
]


def layoutcfg_part(tier: str, seed: int) -> List[dict]:
    files = corpus(tier, seed, per_dialect=4 if tier == "quick" else 16)
    out = []
    nv = len(LAYOUT_VARIANTS)
    for i, (p, d) in enumerate(files):
        src = sq.read(p)
        ks = [(i + j) % nv for j in range(2 if tier == "quick" else 5)]
        for k in ks:
            name, cfg = LAYOUT_VARIANTS[k]
            text = src
            if k % 3 == 0:     # whitespace mutant alongside the config variation
                text = re.sub(r"\n[ \t]+", "\n", src) if k % 2 == 0 else re.sub(r",\s*", "\n, ", src)
            out.append({"id": f"lcfg:{name}:{os.path.relpath(p, sq.FIX)}", "sql": text, "dialect": d, "rules": "layout",
                        "configs": cfg, "mode": "layout"})
    return out


CP = {
    "CP01": ("capitalisation.keywords", "capitalisation_policy", ["consistent", "upper", "lower", "capitalise"]),
    "CP02": ("capitalisation.identifiers", "extended_capitalisation_policy",
             ["consistent", "upper", "lower", "pascal", "capitalise", "snake", "camel"]),
    "CP03": ("capitalisation.functions", "extended_capitalisation_policy",
             ["consistent", "upper", "lower", "pascal", "capitalise", "snake", "camel"]),
    "CP04": ("capitalisation.literals", "capitalisation_policy", ["consistent", "upper", "lower", "capitalise"]),
    "CP05": ("capitalisation.types", "extended_capitalisation_policy",
             ["consistent", "upper", "lower", "pascal", "capitalise", "snake", "camel"]),
}
CAP_HAND = [
    ("ansi", 'SELECT "MixedCase", \'StrinG\', fooBar, Foo_bar2x, COUNT(x), Sum(y), my_Func(z) -- CommentText Here\n'
             'FROM "Tbl" AS tBl /* Block CommenT */ WHERE x IS nUlL AND y = tRue OR z = False AND CAST(q AS vArChar(10)) = \'Ab\'\n'),
    ("ansi", "select a, B, cC from t1 inner JOIN T2 on t1.a = T2.a where a in (1, 2) order by a desc\n"),
    ("ansi", "CREATE TABLE fooBar (idCol int, nameCol VarChar(20), tsCol TimeStamp, b1 Boolean DEFAULT true)\n"),
    ("ansi", "SELECT straße, ıd, ǅx, ΣΑΣ, naïveCol FROM müllTable\n"),
    ("ansi", "SELECT current_timestamp, Current_Date, EXTRACT(Year FROM d), DATEADD(Day, 1, d) FROM t\n"),
    ("bigquery", "SELECT `MixedCase`, fooBar, STRUCT(1 AS aB), SAFE_CAST(x AS Int64), r'RawStr', b\"Byt\" FROM `Proj.DataSet.Tbl` AS tT\n"),
    ("tsql", "SELECT [MixedCase], fooBar, @VarName, N'UniStr', GetDate() FROM [dbo].[Tbl] AS tT WHERE x = NULL\n"),
    ("mysql", "SELECT `MixedCase`, fooBar, @userVar, _utf8'StR', IfNull(a, b) FROM `Tbl` WHERE c IS Not Null\n"),
    ("postgres", "SELECT \"MixedCase\", fooBar, E'EscStr', $1, $tag$Dollar Quoted$tag$, x::VarChar, y::Int4 FROM \"Sch\".\"Tbl\" WHERE t IS True\n"),
    ("snowflake", "SELECT \"MixedCase\", fooBar, $1, t.$2, x:jsonKey::String, TRY_CAST(a AS Number(10, 2)) FROM @Stage_Name AS tT\n"),
    ("sparksql", "SELECT `MixedCase`, fooBar, CAST(x AS sTrInG), array(1, 2)[0], map('Ka', 1) FROM Db.Tbl TABLESAMPLE (10 PERCENT)\n"),
    ("oracle", "SELECT \"MixedCase\", fooBar, NVL(a, b), q'[QuoteD]', TO_DATE('2020', 'YYYY') FROM Tbl tT WHERE ROWNUM < 10\n"),
]


def _case_mutant(src: str, rnd: random.Random) -> str:
    """Flip the case of random letters outside quotes and comments (cheap scanner; the lexer decides the rest)."""
    out = []
    i, n = 0, len(src)
    while i < n:
        ch = src[i]
        if ch in "'\"`":
            j = src.find(ch, i + 1)
            j = n - 1 if j < 0 else j
            out.append(src[i: j + 1])
            i = j + 1
        elif src.startswith("--", i) or ch == "#":
            j = src.find("\n", i)
            j = n if j < 0 else j
            out.append(src[i:j])
            i = j
        elif src.startswith("/*", i):
            j = src.find("*/", i)
            j = n - 2 if j < 0 else j
            out.append(src[i: j + 2])
            i = j + 2
        elif ch == "[":
            j = src.find("]", i)
            j = n - 1 if j < 0 else j
            out.append(src[i: j + 1])
            i = j + 1
        else:
            out.append(ch.swapcase() if ch.isalpha() and rnd.random() < 0.35 else ch)
            i += 1
    return "".join(out)


def cap_part(tier: str, seed: int) -> List[dict]:
    rnd = random.Random(seed * 104729 + 5)
    inputs: List[Tuple[str, str, str]] = [(f"hand{i}", d, s) for i, (d, s) in enumerate(CAP_HAND)]
    for p, d in corpus(tier, seed, per_dialect=2 if tier == "quick" else 10):
        src = sq.read(p)
        if len(src) > 3000:
            continue
        rel = os.path.relpath(p, sq.FIX)
        inputs.append((rel, d, src))
        inputs.append(("mut:" + rel, d, _case_mutant(src, rnd)))
    combos: List[Tuple[str, str, dict]] = []
    for code, (sect, key, pols) in CP.items():
        for pol in pols:
            combos.append((code, pol, {"rules": {sect: {key: pol}}}))
    for pol in ("consistent", "upper", "lower", "capitalise"):
        combos.append(("CP01,CP02,CP03,CP04,CP05", pol,
                       {"rules": {sect: {key: pol} for sect, key, _ in CP.values()}}))
    out = []
    for k, (name, d, src) in enumerate(inputs):
        sel = combos if (tier == "thorough" or name.startswith("hand")) else \
            [combos[(k * 5 + j * 7 + seed) % len(combos)] for j in range(6)]
        seen = set()
        for code, pol, cfg in sel:
            if (code, pol) in seen:
                continue
            seen.add((code, pol))
            out.append({"id": f"cap:{code}:{pol}:{name}", "sql": src, "dialect": d, "rules": code, "configs": cfg, "mode": "cap"})
    return out


PARTS: Dict[str, Callable[[str, int], List[dict]]] = {
    "corpus_all": lambda t, s: corpus_part(t, s, "all"),
    "corpus_layout": lambda t, s: corpus_part(t, s, "layout"),
    "corpus_format": lambda t, s: corpus_part(t, s, "format"),
    "adjacency": adjacency_part,
    "mutants": mutants_part,
    "cases_own": cases_own_part,
    "cases_layout": cases_layout_part,
    "cases_templated_all": cases_templated_all_part,
    "layoutcfg": layoutcfg_part,
    "cap": cap_part,
}


# ------------------------------------------------------------------------------------ recording (cached)
def _record_unit(unit: List[dict]) -> List[dict]:
    out = []
    for case in unit:
        t = fixrec.record_case(case)
        t["case"] = case
        out.append(t)
    return out


def record_cases(cases: List[dict]) -> List[dict]:
    """Record in worker processes; cases sharing a config travel together (a FluffConfig costs ~0.4 s)."""
    import json

    groups: Dict[str, List[int]] = {}
    for i, c in enumerate(cases):
        key = json.dumps([c.get("dialect"), c.get("rules"), c.get("configs"), c.get("over")], sort_keys=True)
        groups.setdefault(key, []).append(i)
    units: List[List[int]] = []
    for key in sorted(groups):
        idx = groups[key]
        for j in range(0, len(idx), 6):
            units.append(idx[j: j + 6])
    # heaviest units first so the pool does not end on a straggler; ties keep the sorted-key order
    units.sort(key=lambda u: -sum(len(cases[i]["sql"]) for i in u))
    res = pmap(_record_unit, [[cases[i] for i in u] for u in units], chunksize=1)
    out: List[Optional[dict]] = [None] * len(cases)
    for u, rs in zip(units, res):
        for i, r in zip(u, rs):
            out[i] = r
    return out  # type: ignore


def part_traces(name: str, tier: str, seed: int) -> Tuple[List[dict], str]:
    return fixrec.cached(name, tier, seed, lambda: record_cases(PARTS[name](tier, seed)), DEPS)


# ------------------------------------------------------------------------------------ what each Prop needs (size only)
_META = ("fixed", "fixed2", "case", "texts", "status", "changed_text", "ntok")


def slim(trace: dict, prop: str) -> dict:
    t = {k: v for k, v in trace.items() if k not in _META}
    t.setdefault("reach0", [])
    if prop in ("C13", "C17", "ENGINE"):       # no token clause
        t["events"] = [dict(e, toks=fixrec.NOTOKS) if "toks" in e else e for e in t["events"]]
    elif prop == "C12":
        t = _slim_c12(t)
    return t


def _slim_c12(t: dict) -> dict:
    """Keep token lists only where RelexStable reads them: the trees the first root run adopted last / started
    with (the final tree is one of them) and the Relex event.  Which one is final is TLC's business."""
    evs = t["events"]
    end = next((i for i, e in enumerate(evs) if e["ev"] == "FixEnd"), len(evs) - 1)
    final_tree = evs[end]["tree"] if evs else None
    out = []
    for i, e in enumerate(evs):
        if "toks" in e and e["ev"] != "Relex":
            keep = i <= end and ((e["ev"] == "Begin" and e["tree"] == final_tree) or (e["ev"] == "Apply" and e["to"] == final_tree))
            if not keep:
                e = dict(e, toks=fixrec.NOTOKS)
        out.append(e)
    t["events"] = out
    return t


def validate_sized(traces: List[dict], prop: str, budget: int = 1_500_000) -> Validation:
    """validate_traces in batches bounded by token volume (~20 MB of JSON per JVM)."""
    val = Validation()
    batch: List[dict] = []
    size = 0

    def flush():
        nonlocal batch, size
        if batch:
            v = validate_traces("FixTrace", batch, constants={"Prop": prop}, timeout=1800, batch=100000)
            val.accepted += v.accepted
            val.rejected += v.rejected
            val.states += v.states
            val.transitions += v.transitions
            val.traces += v.traces
            val.wall_s += v.wall_s
        batch, size = [], 0

    for t in traces:
        w = 200 + sum(len(e["toks"]["t"]) * 2 + 12 for e in t["events"] if "toks" in e) + 12 * len(t["events"])
        if batch and size + w > budget:
            flush()
        batch.append(t)
        size += w
    flush()
    return val


# ------------------------------------------------------------------------------------ reading a trace (reporting only)
def adoptions(trace: dict, second: bool = False) -> List[dict]:
    """Apply events whose result the loop continued with (same rule TLC applies; used for counts/signatures)."""
    evs = trace["events"]
    out = []
    in_second = False
    for i, e in enumerate(evs):
        if e["ev"] == "Begin":
            in_second = bool(e["second"])
        if e["ev"] == "Apply" and in_second == second:
            nxt = evs[i + 1] if i + 1 < len(evs) else None
            if nxt and nxt["ev"] in ("Crawl", "FixEnd") and nxt["tree"] == e["to"] and e["to"] != e["from"] \
                    and not (nxt["ev"] == "FixEnd" and nxt["limit"]):
                out.append(e)
    return out


def rules_of(aps: List[dict]) -> str:
    return "+".join(sorted({a["rule"] for a in aps}))


def load_case_traces(parts: List[str], tier: str, seed: int, rep: Report) -> List[dict]:
    traces: List[dict] = []
    cache = {}
    for p in parts:
        tr, how = part_traces(p, tier, seed)
        cache[p] = {"cache": how, "cases": len(tr)}
        traces += tr
    rep.extra["parts"] = cache
    st: Dict[str, int] = {}
    for t in traces:
        key = t["status"].split(":")[0] if t["status"] != "ok" else ("ok" if t["clean0"] else "ok_unclean_input")
        st[key] = st.get(key, 0) + 1
    rep.extra["recording_status"] = st
    if not traces:
        raise MachineryError("fix suite produced no traces")
    return traces


# ------------------------------------------------------------------------------------ C->S driver shared by the checks
def decide(rep: Report, prop: str, traces: List[dict], describe: Callable[[dict, dict], Tuple[dict, str]],
           nontrivial: Callable[[dict], bool]) -> None:
    """Have FixTrace (Prop = prop) decide every recorded trace; rejected ones become violations."""
    live = [t for t in traces if t["events"]]
    ids = [t["id"] for t in live]
    if len(set(ids)) != len(ids):
        raise MachineryError("fix suite: duplicate trace ids")
    val = validate_sized([slim(t, prop) for t in live], prop)
    rep.validation(val, "FixTrace")
    rep.evaluated(2 * len(traces))
    by = {t["id"]: t for t in live}
    for t in live:
        if nontrivial(t):
            rep.nontrivial(t["id"])
    for r in val.rejected:
        t = by[r["id"]]
        sig, what = describe(t, r)
        sig.setdefault("clause", r["clause"])
        rep.violation(r["clause"], sig, what, {"case": t["case"], "verdict": r, "signature": sig})
    for t in live[:2]:
        rep.sample({"id": t["id"], "mode": t["mode"], "clean0": t["clean0"], "events": len(t["events"]),
                    "adopted": [a["rule"] for a in adoptions(t)], "input": t["case"]["sql"][:200], "fixed": (t.get("fixed") or "")[:200]})


def step_apply(trace: dict, verdict: dict) -> Optional[dict]:
    """The Apply event whose adoption was being resolved at the rejected step (step clauses)."""
    i = verdict["step"] - 1
    evs = trace["events"]
    while i > 0:
        i -= 1
        if evs[i]["ev"] == "Apply":
            return evs[i]
        if evs[i]["ev"] == "Begin":
            return None
    return None


def tok_view(trace: dict, toks: dict) -> List[Tuple[str, str, str]]:
    """(text, class, type) per non-empty token — for messages and signatures only."""
    tx, kc, kt = trace["texts"], trace["kcls"], trace["ktype"]
    return [(tx[t], kc[k], kt[k]) for t, k in zip(toks["t"], toks["k"]) if t != 0]


def first_diff(a: List[Any], b: List[Any]) -> int:
    n = min(len(a), len(b))
    for i in range(n):
        if a[i] != b[i]:
            return i
    return n


def is_templated(case: dict) -> bool:
    return _templated(case["sql"])


def rerun(case: dict, rules: Optional[str] = None) -> dict:
    c = dict(case)
    if rules is not None:
        c["rules"] = rules
    return fixrec.record_case(c)


def culprit_by_single_rule(trace: dict, bad: Callable[[dict], bool]) -> str:
    """Diagnosis only: the smallest evidence of which rule is responsible for an end-to-end clause — a rule
    that reproduces it when run alone, else the set of rules that adopted fixes in the failing run."""
    rules = sorted({a["rule"] for a in adoptions(trace)} | {a["rule"] for a in adoptions(trace, second=True)})
    if len(rules) <= 1:
        return "+".join(rules)
    for r in rules:
        try:
            if bad(rerun(trace["case"], r)):
                return r
        except Exception:
            continue
    return "+".join(rules)


def replay_case(path: str, prop: str) -> int:
    import json

    with open(path) as fh:
        rec = json.load(fh)
    case = rec["case"]["case"]
    t = fixrec.record_case(case)
    t["case"] = case
    if not t["events"]:
        print(f"replay: the case is not recorded any more (status {t['status']})")
        return 0
    val = validate_sized([slim(t, prop)], prop)
    if val.rejected:
        print(f"VIOLATION property={prop} replay={path}")
        print(f"  clause={val.rejected[0]['clause']} step={val.rejected[0]['step']} input={case['sql']!r} fixed={t.get('fixed')!r}")
        return 1
    print("replay: behaviour now satisfies the contract")
    return 0
