"""C16 helpers: fixed SQLite schema + three data sets, a seeded generator of executable queries in many
spellings, and the recorder that fixes a query with the real linter and executes every adopted version.

Nothing here judges anything: results are interned to ids and handed to spec/SemTrace.tla.
"""
from __future__ import annotations

import random
import sqlite3
from typing import Any, Dict, List, Optional, Tuple

SCHEMA = [
    "CREATE TABLE t1 (id INTEGER, a INTEGER, b TEXT, c REAL)",
    "CREATE TABLE t2 (id INTEGER, a INTEGER, d TEXT)",
    "CREATE TABLE t3 (id INTEGER, t1_id INTEGER, e TEXT, f INTEGER)",
]
COLS = {"t1": ["id", "a", "b", "c"], "t2": ["id", "a", "d"], "t3": ["id", "t1_id", "e", "f"]}
NUM = {"t1": ["id", "a", "c"], "t2": ["id", "a"], "t3": ["id", "t1_id", "f"]}
TXT = {"t1": ["b"], "t2": ["d"], "t3": ["e"]}


def _data(k: int) -> Dict[str, List[tuple]]:
    """Three deterministic contents with NULLs and duplicate rows (no randomness: fixed formulas)."""
    t1, t2, t3 = [], [], []
    n = [5, 8, 11][k]
    for i in range(n):
        a = None if (i + k) % 4 == 3 else (i * (k + 2)) % 5
        b = None if i % 5 == 4 else "xyz"[(i + k) % 3] * (1 + i % 2)
        c = None if i % 6 == 5 else round(0.5 * ((i * 3 + k) % 7), 1)
        t1.append((i % (n - 1), a, b, c))          # the last id repeats the first
    t1.append(t1[1])                               # an exact duplicate row
    for i in range(n - 1):
        a = None if i % 3 == 2 else (i * 2 + k) % 5
        d = None if (i + k) % 4 == 0 else "pqr"[i % 3]
        t2.append(((i * 2) % n, a, d))
    t2.append(t2[0])
    for i in range(n + 2):
        e = None if i % 4 == 1 else "uvw"[(i + k) % 3]
        f = None if i % 5 == 2 else (i * 7 + k) % 4
        t3.append((i, None if i % 6 == 3 else i % n, e, f))
    t3.append(t3[2])
    return {"t1": t1, "t2": t2, "t3": t3}


_DB: Dict[int, sqlite3.Connection] = {}


def db(k: int) -> sqlite3.Connection:
    if k not in _DB:
        con = sqlite3.connect(":memory:")
        for s in SCHEMA:
            con.execute(s)
        for t, rows in _data(k).items():
            con.executemany(f"INSERT INTO {t} VALUES ({','.join('?' * len(rows[0]))})", rows)
        con.commit()
        _DB[k] = con
    return _DB[k]


def execute(sql: str) -> List[Any]:
    """Result multiset per data set: sorted list of row tuples (values only), or the string 'error: ...'."""
    out: List[Any] = []
    for k in range(3):
        try:
            cur = db(k).execute(sql)
            rows = cur.fetchall()
            out.append(sorted((tuple(r) for r in rows), key=repr))
        except Exception as e:  # noqa: BLE001
            db(k).rollback()
            out.append(f"error: {type(e).__name__}: {e}")
    return out


# ---------------------------------------------------------------- generator
class Gen:
    """Random executable SELECT statements; every construct is spelt in one of several equivalent ways."""

    def __init__(self, rnd: random.Random):
        self.r = rnd
        self.kwcase = rnd.choice(["upper", "upper", "lower", "mixed"])
        self.fcase = rnd.choice(["upper", "lower"])

    # -- spelling helpers
    def kw(self, s: str) -> str:
        if self.kwcase == "upper":
            return s.upper()
        if self.kwcase == "lower":
            return s.lower()
        return s.upper() if self.r.random() < 0.6 else s.lower()

    def fn(self, s: str) -> str:
        return s.upper() if self.fcase == "upper" else s.lower()

    def ws(self) -> str:
        return self.r.choice([" ", " ", " ", "  ", "\n", "\n    "])

    def neq(self) -> str:
        return self.r.choice(["<>", "!="])

    def alias(self, expr: str, name: str) -> str:
        return expr + self.r.choice([f" {self.kw('as')} {name}", f" {name}"])

    def maybe_br(self, e: str) -> str:
        return f"({e})" if self.r.random() < 0.2 else e

    # -- expressions over a set of visible (qualifier, table) pairs
    def col(self, vis: List[Tuple[str, str]], kind: str = "any", qualify: Optional[bool] = None) -> str:
        q, t = self.r.choice(vis)
        pool = NUM[t] if kind == "num" else TXT[t] if kind == "txt" else COLS[t]
        c = self.r.choice(pool)
        ambiguous = sum(1 for _q, tt in vis if c in COLS[tt]) > 1
        if qualify is None:
            qualify = ambiguous or self.r.random() < 0.5
        return f"{q}.{c}" if (qualify or ambiguous) else c

    def num_expr(self, vis, depth=0) -> str:
        r = self.r.random()
        if depth > 1 or r < 0.45:
            return self.col(vis, "num")
        if r < 0.55:
            return str(self.r.randrange(0, 4))
        if r < 0.7:
            f = self.r.choice(["coalesce", "ifnull"])
            return f"{self.fn(f)}({self.col(vis, 'num')}, {self.r.choice([str(self.r.randrange(5)), self.col(vis, 'num')])})"
        if r < 0.85:
            op = self.r.choice(["+", "-", "*"])
            return self.maybe_br(f"{self.num_expr(vis, depth + 1)} {op} {self.num_expr(vis, depth + 1)}")
        return self.case_expr(vis, depth + 1)

    def case_expr(self, vis, depth=0) -> str:
        c = self.col(vis, "num")
        form = self.r.randrange(4)
        if form == 0:     # ST02-style: could be a coalesce
            return f"{self.kw('case')} {self.kw('when')} {c} {self.kw('is null')} {self.kw('then')} 0 {self.kw('else')} {c} {self.kw('end')}"
        if form == 1:     # ST01-style: redundant else null
            return f"{self.kw('case')} {self.kw('when')} {self.cond(vis, depth + 1)} {self.kw('then')} {c} {self.kw('else null end')}"
        if form == 2:     # nested (ST04)
            return (f"{self.kw('case')} {self.kw('when')} {c} > 1 {self.kw('then')} 1 {self.kw('else')} "
                    f"{self.kw('case')} {self.kw('when')} {c} > 0 {self.kw('then')} 2 {self.kw('else')} 3 {self.kw('end')} {self.kw('end')}")
        return f"{self.kw('case')} {c} {self.kw('when')} 1 {self.kw('then')} 10 {self.kw('when')} 2 {self.kw('then')} 20 {self.kw('end')}"

    def cond(self, vis, depth=0) -> str:
        r = self.r.random()
        if depth > 1 or r < 0.3:
            op = self.r.choice(["=", "<", ">", "<=", ">=", self.neq(), self.neq()])
            return f"{self.num_expr(vis, 2)} {op} {self.r.choice([str(self.r.randrange(4)), self.num_expr(vis, 2)])}"
        if r < 0.42:
            return f"{self.col(vis)} {self.kw(self.r.choice(['is null', 'is not null']))}"
        if r < 0.47:      # comparison with NULL (CV05 territory; CV05 itself is excluded from the run)
            return f"{self.col(vis)} = {self.kw('null')}"
        if r < 0.57:
            return f"{self.col(vis, 'txt')} {self.r.choice(['=', self.neq()])} '{self.r.choice('xyzpqruvw')}'"
        if r < 0.65:
            return f"{self.col(vis, 'num')} {self.kw('in')} ({', '.join(str(self.r.randrange(5)) for _ in range(self.r.randrange(1, 4)))})"
        if r < 0.72:
            t = self.r.choice(["t1", "t2", "t3"])
            return (f"{self.col(vis, 'num')} {self.kw('in')} ({self.kw('select')} {self.r.choice(NUM[t])} "
                    f"{self.kw('from')} {t} {self.kw('where')} {self.r.choice(NUM[t])} > {self.r.randrange(3)})")
        if r < 0.78:
            return f"{self.kw('not')} {self.maybe_br(self.cond(vis, depth + 1))}"
        op = self.kw(self.r.choice(["and", "or"]))
        a, b = self.cond(vis, depth + 1), self.cond(vis, depth + 1)
        return self.r.choice([f"{a} {op} {b}", f"({a}) {op} ({b})", f"({a} {op} {b})"])

    # -- FROM clauses
    def from_clause(self) -> Tuple[str, List[Tuple[str, str]], bool]:
        """(text, visible (qualifier, table) list, star_safe)."""
        r = self.r.random()
        tabs = ["t1", "t2", "t3"]
        if r < 0.35:
            t = self.r.choice(tabs)
            if self.r.random() < 0.4:
                al = self.r.choice(["x", "tt", t[0] + "_" + t[1]])
                return self.alias(t, al), [(al, t)], True
            return t, [(t, t)], True
        if r < 0.45:      # subquery in FROM (ST05)
            t = self.r.choice(tabs)
            cs = self.r.sample(COLS[t], self.r.randrange(2, len(COLS[t]) + 1))
            sub = f"({self.kw('select')} {', '.join(cs)} {self.kw('from')} {t} {self.kw('where')} {self.r.choice(NUM[t])} {self.kw('is not null')})"
            text = self.alias(sub, "sq")
            # expose it as a pseudo table
            COLS["#sq"], NUM["#sq"], TXT["#sq"] = cs, [c for c in cs if c in NUM[t]] or cs[:1], [c for c in cs if c in TXT[t]] or cs[:1]
            return text, [("sq", "#sq")], True
        # joins
        left = self.r.choice(["t1", "t2"])
        right = "t2" if left == "t1" else "t1"
        if self.r.random() < 0.35:
            right = "t3"
        la, ra = (left, right)
        use_alias = self.r.random() < 0.5
        if use_alias:
            la, ra = "l", "r"
        ltxt = self.alias(left, la) if use_alias else left
        rtxt = self.alias(right, ra) if use_alias else right
        jt = self.r.choice(["join", "join", "inner join", "left join", "left outer join", "cross join", "natural join", ","])
        vis = [(la, left), (ra, right)]
        if jt == ",":
            return f"{ltxt}, {rtxt}", vis, True
        if jt in ("cross join", "natural join"):
            if jt == "natural join" and right == "t3":
                jt = "cross join"
            return f"{ltxt}{self.ws()}{self.kw(jt)} {rtxt}", vis, jt == "cross join"
        if right != "t3" and self.r.random() < 0.4:
            using = self.r.choice(["id", "id", "a", "id, a"])
            return f"{ltxt}{self.ws()}{self.kw(jt)} {rtxt} {self.kw('using')} ({using})", vis, False
        if self.r.random() < 0.35:
            on = self.on_condition(la, left, ra, right)
        elif right == "t3":
            on = self.r.choice([f"{la}.id = {ra}.t1_id", f"{ra}.t1_id = {la}.id", f"{la}.id = {ra}.id"])
        else:
            on = self.r.choice([f"{la}.id = {ra}.id", f"{ra}.id = {la}.id", f"{la}.id = {ra}.id {self.kw('and')} {la}.a = {ra}.a",
                                f"{ra}.a {self.neq()} {la}.a"])
        return f"{ltxt}{self.ws()}{self.kw(jt)} {rtxt} {self.kw('on')} {self.maybe_br(on)}", vis, True

    def on_condition(self, la: str, left: str, ra: str, right: str) -> str:
        """1-3 comparisons between numeric columns of the two tables: any operator, either table first, and either
        side possibly an arithmetic expression rather than a bare column (what a join-condition reordering rule
        may and may not swap)."""
        def side(q: str, t: str) -> str:
            c = f"{q}.{self.r.choice(NUM[t])}"
            r = self.r.random()
            return c if r < 0.55 else f"{c} {self.r.choice(['+', '-', '*'])} {self.r.randrange(1, 3)}" if r < 0.9 else f"({c})"
        parts = []
        for _ in range(self.r.choice([1, 1, 2, 3])):
            a, b = side(la, left), side(ra, right)
            if self.r.random() < 0.5:
                a, b = b, a
            parts.append(f"{a} {self.r.choice(['=', '=', '<', '>', '<=', '>=', self.neq()])} {b}")
        out = parts[0]
        for p_ in parts[1:]:
            out += f" {self.kw(self.r.choice(['and', 'and', 'or']))} {p_}"
        return out

    # -- SELECT
    def select_core(self, ncols: Optional[int] = None, allow_star: bool = True) -> Tuple[str, int]:
        frm, vis, _star_safe = self.from_clause()
        grouped = self.r.random() < 0.25
        items: List[str] = []
        n = ncols or self.r.randrange(1, 4)
        gcol = None
        if grouped:
            gcol = self.col(vis, "any")
            agg_pool = [f"{self.fn('count')}(*)", f"{self.fn('count')}(1)", f"{self.fn('count')}(0)",
                        f"{self.fn('sum')}({self.col(vis, 'num')})", f"{self.fn('max')}({self.col(vis, 'num')})",
                        f"{self.fn('count')}({self.kw('distinct')} {self.col(vis, 'num')})"]
            items = [gcol] + [self.alias(self.r.choice(agg_pool), f"m{i}") if self.r.random() < 0.7 else self.r.choice(agg_pool)
                              for i in range(n - 1)]
        elif allow_star and ncols is None and self.r.random() < 0.18:
            items = ["*"] if self.r.random() < 0.7 or len(vis) < 2 else [f"{vis[0][0]}.*"]
            n = -1
        else:
            for i in range(n):
                e = self.r.choice([self.col(vis), self.col(vis), self.num_expr(vis), self.case_expr(vis)])
                r = self.r.random()
                if r < 0.35:
                    e = self.alias(e, f"c{i}")
                elif r < 0.42 and e.isidentifier():
                    e = f"{e} {self.kw('as')} {e}"          # self alias (AL09)
                items.append(e)
        distinct = ""
        if not grouped and self.r.random() < 0.2:
            distinct = self.kw("distinct") + " "
            if len(items) == 1 and items[0] != "*" and self.r.random() < 0.5 and " " not in items[0]:
                items = [f"({items[0]})"]                 # DISTINCT(a)  (ST08)
                distinct = self.kw("distinct")
            elif n > 0 and self.r.random() < 0.35:
                # brackets that are needed: DISTINCT (a + b) * 2
                items[0] = f"({self.col(vis, 'num')} + {self.col(vis, 'num')}) * {self.r.randrange(2, 4)}"
                distinct = self.kw("distinct") + self.r.choice([" ", ""])
        sep = self.r.choice([", ", ", ", ",\n    ", "\n    , ", " ,"])
        sql = f"{self.kw('select')} {distinct}{sep.join(items)}{self.ws()}{self.kw('from')} {frm}"
        if self.r.random() < 0.6:
            sql += f"{self.ws()}{self.kw('where')} {self.cond(vis)}"
        if grouped:
            sql += f"{self.ws()}{self.kw('group by')} {gcol}"
            if self.r.random() < 0.4:
                sql += f" {self.kw('having')} {self.fn('count')}(*) {self.r.choice(['>', '>=', self.neq()])} {self.r.randrange(3)}"
        return sql, n

    def query(self) -> str:
        r = self.r.random()
        if r < 0.15:      # CTE
            inner, n = self.select_core(allow_star=False)
            names = [f"k{i}" for i in range(n)]
            cte = f"{self.kw('with')} w ({', '.join(names)}) {self.kw('as')} ({inner})"
            COLS["#w"], NUM["#w"], TXT["#w"] = names, names, names
            cols = self.r.sample(names, self.r.randrange(1, n + 1))
            sql = f"{cte}\n{self.kw('select')} {', '.join(cols)} {self.kw('from')} w"
            if self.r.random() < 0.5:
                sql += f" {self.kw('where')} {cols[0]} {self.kw('is not null')}"
            out_n = len(cols)
        elif r < 0.3:     # UNION [ALL]
            a, n = self.select_core(ncols=self.r.randrange(1, 3), allow_star=False)
            b, _ = self.select_core(ncols=n, allow_star=False)
            sql = f"{a}\n{self.kw(self.r.choice(['union', 'union all']))}\n{b}"
            out_n = n
        else:
            sql, out_n = self.select_core()
        if out_n > 0 and self.r.random() < 0.3:
            # a total order over the whole output row makes ORDER BY / LIMIT deterministic as a multiset
            sql += f"{self.ws()}{self.kw('order by')} {', '.join(str(i + 1) for i in range(out_n))}"
            if self.r.random() < 0.6:
                sql += f" {self.kw('limit')} {self.r.randrange(1, 6)}"
        sql += self.r.choice(["", ";", "\n", ";\n", " ;\n", "  \n"])
        return sql


def generate(seed: int, n: int) -> List[str]:
    """n distinct generated queries that execute on all three data sets."""
    out: List[str] = []
    seen = set()
    k = 0
    while len(out) < n and k < n * 30:
        rnd = random.Random(seed * 1000003 + k)
        k += 1
        try:
            q = Gen(rnd).query()
        except Exception:  # noqa: BLE001 - generator corner (e.g. empty pool): just skip
            continue
        if q in seen:
            continue
        seen.add(q)
        if any(isinstance(x, str) for x in execute(q)):
            continue
        out.append(q)
    return out


# ---------------------------------------------------------------- recorder
RULES_OFF = "ST06,CV05"


def record(item: Tuple[str, str]) -> Dict[str, Any]:
    """Fix one query with the real linter; execute the original, every adopted version and the output."""
    import sqlfluff.core.linter.linter as L

    from . import sq

    qid, sql = item
    cfg = sq.config("sqlite", "raw", rules="all", exclude_rules=RULES_OFF)
    lnt = sq.linter(cfg)
    calls: List[dict] = []
    fin: Dict[str, Any] = {}
    orig_apply = L.apply_fixes
    orig_lfp = L.Linter.lint_fix_parsed

    def apply_fixes(tree, dialect, rule_code, *a, **kw):
        res = orig_apply(tree, dialect, rule_code, *a, **kw)
        calls.append({"rule": rule_code, "in": tree, "out": res[0], "valid": bool(res[3])})
        return res

    def lint_fix_parsed(cls, tree, *a, **kw):
        res = orig_lfp.__func__(cls, tree, *a, **kw)
        if kw.get("fix"):
            fin["orig"], fin["tree"] = tree, res[0]
        return res

    L.apply_fixes = apply_fixes
    L.Linter.lint_fix_parsed = classmethod(lint_fix_parsed)  # type: ignore[method-assign]
    tr: Dict[str, Any] = {"id": qid, "sql": sql, "events": [], "texts": []}
    try:
        try:
            lf = lnt.lint_string(sql, fname=f"{qid}.sql", fix=True)
        except Exception as e:  # noqa: BLE001 - a crash is C04's business; here the query is dropped
            tr["skip"] = f"fix raised {type(e).__name__}: {e}"
            return tr
    finally:
        L.apply_fixes = orig_apply
        L.Linter.lint_fix_parsed = orig_lfp  # type: ignore[method-assign]
    if any(v.rule_code() in ("PRS", "TMP", "LXR") for v in lf.violations):
        tr["skip"] = "sqlfluff cannot parse the generated query (sqlite dialect)"
        return tr
    if "tree" not in fin:
        tr["skip"] = "no fix pass ran"
        return tr
    ids: Dict[str, int] = {}

    errs: Dict[str, str] = {}

    def rows(text: str) -> List[int]:
        out = []
        for res in execute(text):
            if isinstance(res, str):
                out.append(-1)
                errs.setdefault(text, res)
            else:
                out.append(ids.setdefault(repr(res), len(ids) + 1))
        return out

    tr["events"].append({"ev": "Start", "rows": rows(sql)})
    tr["texts"].append(["original", sql])
    # which batches were adopted: the tree a later call starts from (or the tree finally returned) is the
    # very object an earlier call produced
    for i, c in enumerate(calls):
        later_inputs = [d["in"] for d in calls[i + 1:]] + [fin["tree"]]
        adopted = any(x is c["out"] for x in later_inputs)
        if adopted:
            text = c["out"].raw
            tr["events"].append({"ev": "Apply", "rule": c["rule"], "rows": rows(text)})
            tr["texts"].append([c["rule"], text])
    fixed, _ok = lf.fix_string()
    limit = fin["tree"] is fin["orig"] and len(tr["events"]) > 1
    tr["events"].append({"ev": "Finish", "rows": rows(fixed), "limit": bool(limit)})
    tr["texts"].append(["output", fixed])
    tr["texts"] = [[w, t, errs.get(t, "")] for w, t in tr["texts"]]
    tr["napplied"] = len(tr["events"]) - 2
    tr["ncalls"] = len(calls)
    return tr
