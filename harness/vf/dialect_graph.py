"""C29 helpers: extraction of the reference graph of an expanded dialect, observation of Dialect.ref
calls, witness construction for dangling references, single-character lexing.

Nothing here judges anything: the graph is handed to TLC (spec/DialectGraph.tla) as a generated module.
"""
from __future__ import annotations

import heapq
import re
import unicodedata
from typing import Any, Dict, List, Optional, Set, Tuple


# ---------------------------------------------------------------- extraction
def _is_segment_class(v: Any) -> bool:
    from sqlfluff.core.parser.segments.base import BaseSegment

    return isinstance(v, type) and issubclass(v, BaseSegment)


def _is_matchable(v: Any) -> bool:
    # duck-typed on purpose: isinstance(x, Matchable) misbehaves for some plain values
    return (not isinstance(v, type)) and hasattr(v, "match") and hasattr(v, "simple") and hasattr(v, "is_optional")


def children(o: Any) -> List[Tuple[str, Any]]:
    """(attribute, grammar object) pairs held by a grammar object / segment class (no name resolution)."""
    out: List[Tuple[str, Any]] = []
    if _is_segment_class(o):
        mg = getattr(o, "match_grammar", None)
        if mg is not None:
            out.append(("match_grammar", mg))
        return out
    try:
        items = list(vars(o).items())
    except TypeError:
        return out
    for a, v in items:
        if a in ("raw_class",):
            continue
        if _is_segment_class(v) or _is_matchable(v):
            out.append((a, v))
        elif isinstance(v, (list, tuple)):
            for x in v:
                if _is_segment_class(x) or _is_matchable(x):
                    out.append((a, x))
                elif isinstance(x, (list, tuple)):
                    for y in x:
                        if _is_segment_class(y) or _is_matchable(y):
                            out.append((a, y))
    return out


def direct_refs(o: Any, dialect: Any) -> List[str]:
    """Names this single object resolves through Dialect.ref when it is matched."""
    from sqlfluff.core.parser.grammar.base import Ref

    out: List[str] = []
    if isinstance(o, Ref):
        out.append(o._ref)
    bps = getattr(o, "bracket_pairs_set", None) if not isinstance(o, type) else None
    if isinstance(bps, str):
        out.append("@" + bps)
    return out


def refs_inside(obj: Any, dialect: Any) -> Set[str]:
    """Every name referenced anywhere inside the definition of one library element."""
    out: Set[str] = set()
    seen: Set[int] = set()
    stack = [obj]
    while stack:
        o = stack.pop()
        if id(o) in seen:   # ids of live objects reachable from the library: stable during this walk
            continue
        seen.add(id(o))
        out.update(direct_refs(o, dialect))
        for _a, c in children(o):
            stack.append(c)
    return out


BRACKET_SETS = ("bracket_pairs", "angle_bracket_pairs")


def extract(label: str) -> Dict[str, Any]:
    """Expanded dialect -> {label, root, names, ndefined, edges, inherits}.

    names[0:ndefined] are defined (library elements + one pseudo element per bracket set), the rest are
    names that are referenced but not defined.  edges[i] = sorted ids referenced by names[i] (defined only).
    """
    from sqlfluff.core.dialects import dialect_selector, load_raw_dialect

    dia = dialect_selector(label)
    lib = dia._library
    # NB the expanded copy names itself as its parent (expand() goes through copy_as); ask the raw dialect
    parent = load_raw_dialect(label).inherits_from
    raw: Dict[str, Set[str]] = {}
    for name in sorted(lib):
        raw[name] = refs_inside(lib[name], dia)
    for bs in BRACKET_SETS:
        pairs = dia._sets.get(bs, set())
        raw["@" + bs] = {r for _t, s, e, _p in pairs for r in (s, e)}
    # the root element is matched greedily: every parse resolves the default bracket set
    raw[dia.root_segment_name] = set(raw.get(dia.root_segment_name, set())) | {"@bracket_pairs"}
    defined = sorted(raw)
    undefined = sorted({m for v in raw.values() for m in v if m not in raw})
    names = defined + undefined
    idx = {n: i + 1 for i, n in enumerate(names)}
    edges = [sorted(idx[m] for m in raw[n]) for n in defined]
    return {"label": label, "root": idx[dia.root_segment_name], "names": names, "ndefined": len(defined),
            "edges": edges, "inherits": parent if parent != label else None}


def graph_data(graphs: List[Dict[str, Any]], observed: Dict[str, List[str]]) -> Dict[str, Any]:
    """The data DialectGraph.tla runs on (written as JSON, read through IOEnv.VF_GRAPH)."""
    obs = []
    for g in graphs:
        idx = {n: i + 1 for i, n in enumerate(g["names"])}
        # a name never seen by the extractor gets id 0, which is not a node: reported as unexplained
        obs.append(sorted({idx.get(n, 0) for n in observed.get(g["label"], [])}))
    return {"Dialects": [g["label"] for g in graphs], "NDefined": [g["ndefined"] for g in graphs],
            "RootOf": [g["root"] for g in graphs], "NameOf": [list(g["names"]) for g in graphs],
            "EdgesOf": [[list(e) for e in g["edges"]] for g in graphs], "ObservedOf": obs}


# ---------------------------------------------------------------- observation of Dialect.ref
def observe_refs(job: Tuple[str, List[str]]) -> Dict[str, Any]:
    """Parse the given fixture files of one dialect with Dialect.ref wrapped; return the names asked for."""
    from sqlfluff.core.dialects.base import Dialect

    from . import sq

    label, files = job
    seen: Set[str] = set()
    orig = Dialect.ref

    def ref(self, name):
        if self.name == label:
            seen.add(name)
        return orig(self, name)

    Dialect.ref = ref  # type: ignore[method-assign]
    crashes = []
    try:
        for f in files:
            try:
                sq.parse_text(sq.read(f), dialect=label, templater="raw", fname=f)
            except Exception as e:  # noqa: BLE001
                crashes.append([f, f"{type(e).__name__}: {str(e)[:200]}"])
    finally:
        Dialect.ref = orig  # type: ignore[method-assign]
    return {"label": label, "observed": sorted(seen), "files": len(files), "crashes": crashes}


# ---------------------------------------------------------------- witnesses
POOL = ["x1", "1", "'a'", '"a"', "`a`", "1.5", "@a", "$1", ":a", "?", "[a]", "$$a$$", "a1", "%(a)s", "${a}", "@@a", "#a",
        "N'a'", "b'a'", "x'01'", "e'a'", "1e3", "<<a>>"]


class Sentences:
    """Shortest token lists matched by grammar objects of one expanded dialect (best effort)."""

    def __init__(self, dia: Any):
        self.dia = dia
        self.best: Dict[str, Optional[List[str]]] = {}
        self.samples = self._lex_samples()
        self._fix()

    def _lex_samples(self) -> Dict[str, str]:
        from sqlfluff.core.parser.lexer import PyLexer

        out: Dict[str, str] = {}
        lx = PyLexer(dialect=self.dia.name)
        for cand in POOL:
            try:
                toks, _ = lx.lex(cand)
            except Exception:  # noqa: BLE001
                continue
            real = [t for t in toks if t.raw]
            if len(real) == 1:
                for ty in real[0].class_types:
                    out.setdefault(ty, cand)
        return out

    def _fix(self) -> None:
        lib = self.dia._library
        for n in lib:
            self.best[n] = None
        for _round in range(40):
            changed = False
            for n in sorted(lib):
                g = self.gen(lib[n], top=True)
                if g is not None and (self.best[n] is None or len(g) < len(self.best[n])):  # type: ignore[arg-type]
                    self.best[n] = g
                    changed = True
            if not changed:
                break

    def gen(self, o: Any, top: bool = False) -> Optional[List[str]]:
        from sqlfluff.core.parser.grammar import AnyNumberOf, Bracketed, Delimited, Ref, Sequence
        from sqlfluff.core.parser.grammar.base import Anything, Nothing
        from sqlfluff.core.parser.grammar.conditional import Conditional
        from sqlfluff.core.parser.parsers import MultiStringParser, RegexParser, StringParser, TypedParser
        from sqlfluff.core.parser.segments.meta import MetaSegment

        if isinstance(o, type):
            if issubclass(o, MetaSegment):
                return []
            mg = getattr(o, "match_grammar", None)
            return self.gen(mg) if mg is not None else None
        if not top and hasattr(o, "is_optional") and o.is_optional():
            return []
        if isinstance(o, Ref):
            return self.best.get(o._ref)
        if isinstance(o, StringParser):
            return [o.template]
        if isinstance(o, MultiStringParser):
            return [sorted(o.templates)[0]] if o.templates else None
        if isinstance(o, TypedParser):
            s = self.samples.get(o.template)
            return [s] if s is not None else None
        if isinstance(o, RegexParser):
            for cand in POOL + ["a", "A", "abc"]:
                if o._template.match(cand) and not (o.anti_template and o._anti_template.match(cand)):
                    return [cand]
            return None
        if isinstance(o, (Nothing,)):
            return None
        if isinstance(o, Anything):
            return ["x1"]
        if isinstance(o, Conditional):
            return []
        if isinstance(o, Bracketed):
            inner = self._seq(o._elements)
            br = self._brackets(o)
            if inner is None or br is None:
                return None
            return br[0] + inner + br[1]
        if isinstance(o, Sequence):
            return self._seq(o._elements)
        if isinstance(o, AnyNumberOf):   # OneOf, AnySetOf, Delimited, OptionallyBracketed
            if getattr(o, "min_times", 1) == 0 and not isinstance(o, Delimited):
                return []
            opts = [g for g in (self.gen(e) for e in o._elements) if g is not None]
            if not opts:
                return None
            b = min(opts, key=len)
            return b * max(1, getattr(o, "min_times", 1) or 1)
        return None

    def _seq(self, elems: List[Any]) -> Optional[List[str]]:
        out: List[str] = []
        for e in elems:
            g = self.gen(e)
            if g is None:
                return None
            out += g
        return out

    def _brackets(self, o: Any) -> Optional[Tuple[List[str], List[str]]]:
        for bt, s, e, _p in self.dia.bracket_sets(o.bracket_pairs_set):
            if bt == o.bracket_type:
                a, b = self.best.get(s), self.best.get(e)
                if a is None or b is None:
                    return None
                return a, b
        return None

    # tokens that must come before the parser tries `target` (an object inside `o`)
    def prefix(self, o: Any, target: Any, depth: int = 0) -> Optional[List[str]]:
        from sqlfluff.core.parser.grammar import Bracketed, Sequence

        if o is target:
            return []
        if depth > 60:
            return None
        if isinstance(o, type):
            mg = getattr(o, "match_grammar", None)
            return self.prefix(mg, target, depth + 1) if mg is not None else None
        # things consulted as soon as `o` itself is tried
        for a in ("terminators", "exclude", "delimiter"):
            v = getattr(o, a, None)
            vs = v if isinstance(v, (list, tuple)) else ([v] if v is not None else [])
            for x in vs:
                if _is_matchable(x) or _is_segment_class(x):
                    p = self.prefix(x, target, depth + 1)
                    if p is not None:
                        return p
        elems = getattr(o, "_elements", None)
        if not elems:
            return None
        if isinstance(o, Sequence):
            lead: List[str] = []
            if isinstance(o, Bracketed):
                br = self._brackets(o)
                if br is None:
                    return None
                lead = list(br[0])
            acc: Optional[List[str]] = list(lead)
            best: Optional[List[str]] = None
            for e in elems:
                if acc is None:
                    break
                p = self.prefix(e, target, depth + 1)
                if p is not None:
                    cand = acc + p
                    if best is None or len(cand) < len(best):
                        best = cand
                    break
                g = self.gen(e)
                acc = None if g is None else acc + g
            return best
        best2: Optional[List[str]] = None
        for e in elems:
            p = self.prefix(e, target, depth + 1)
            if p is not None and (best2 is None or len(p) < len(best2)):
                best2 = p
        return best2


def ref_objects(obj: Any) -> List[Any]:
    """All Ref objects inside one library element's definition."""
    from sqlfluff.core.parser.grammar.base import Ref

    out, seen, stack = [], set(), [obj]
    while stack:
        o = stack.pop()
        if id(o) in seen:
            continue
        seen.add(id(o))
        if isinstance(o, Ref):
            out.append(o)
        for _a, c in children(o):
            stack.append(c)
    return out


def witnesses(label: str, dangling: List[Tuple[str, str]]) -> List[Dict[str, Any]]:
    """For each dangling (element, reference) try: cheapest token path root -> element -> reference, parse it."""
    from sqlfluff.core.dialects import dialect_selector

    from . import sq

    dia = dialect_selector(label)
    lib = dia._library
    sent = Sentences(dia)
    # Dijkstra over element names; weight = tokens needed inside the element before the reference is tried
    root = dia.root_segment_name
    dist: Dict[str, Tuple[int, List[str]]] = {root: (0, [])}
    heap: List[Tuple[int, str]] = [(0, root)]
    refs_cache: Dict[str, List[Any]] = {}
    want_from = {f for f, _t in dangling}
    done: Set[str] = set()
    while heap:
        dcur, n = heapq.heappop(heap)
        if n in done or n not in lib:
            continue
        done.add(n)
        refs_cache[n] = ref_objects(lib[n])
        by_name: Dict[str, Optional[List[str]]] = {}
        for r in refs_cache[n]:
            if r._ref in done:
                continue
            p = sent.prefix(lib[n], r)
            if p is not None and (by_name.get(r._ref) is None or len(p) < len(by_name[r._ref])):  # type: ignore[arg-type]
                by_name[r._ref] = p
        for m, p in sorted(by_name.items()):
            if p is None:
                continue
            cand = dist[n][1] + p
            if m not in dist or len(cand) < dist[m][0]:
                dist[m] = (len(cand), cand)
                heapq.heappush(heap, (len(cand), m))
    out = []
    for frm, to in dangling:
        rec: Dict[str, Any] = {"from": frm, "to": to, "sql": None, "outcome": "no-path"}
        if frm in dist and frm in lib:
            best = None
            for r in refs_cache.get(frm) or ref_objects(lib[frm]):
                if r._ref == to:
                    p = sent.prefix(lib[frm], r)
                    if p is not None and (best is None or len(p) < len(best)):
                        best = p
            if best is not None:
                last = to[:-14].upper() if to.endswith("KeywordSegment") else "x1"
                sql = " ".join(dist[frm][1] + best + [last]) + " x1 ;\n"
                rec["sql"] = sql
                try:
                    sq.parse_text(sql, dialect=label, templater="raw", fname="<witness>")
                    rec["outcome"] = "parsed"
                except RuntimeError as e:
                    rec["outcome"] = "RuntimeError"
                    rec["message"] = str(e).split("\n")[0][:200]
                except Exception as e:  # noqa: BLE001
                    rec["outcome"] = type(e).__name__
                    rec["message"] = str(e)[:200]
        out.append(rec)
    import sys as _sys

    if getattr(_sys, "tracebacklimit", None) == 0:   # Dialect.ref sets this as a side effect when it raises
        del _sys.tracebacklimit
    return out


def witness_job(job: Tuple[str, List[Tuple[str, str]]]) -> Dict[str, Any]:
    pairs = [tuple(x) for x in job[1]]
    try:
        return {"label": job[0], "witnesses": witnesses(job[0], pairs)}  # type: ignore[arg-type]
    except Exception as e:  # noqa: BLE001 - witnesses are best effort
        return {"label": job[0], "witnesses": [{"from": f, "to": t, "sql": None, "outcome": "generator-error",
                                                "message": f"{type(e).__name__}: {e}"} for f, t in pairs]}


# ---------------------------------------------------------------- where a dangling reference is defined
def definers(graphs: Dict[str, Dict[str, Any]], dangling: Dict[str, List[Tuple[str, str]]]) -> Dict[Tuple[str, str, str], str]:
    """(dialect, element, reference) -> the furthest ancestor dialect that has the same dangling pair."""
    out = {}
    sets = {d: set(map(tuple, v)) for d, v in dangling.items()}
    for d, pairs in dangling.items():
        for frm, to in pairs:
            cur = d
            while True:
                parent = graphs[cur]["inherits"] if cur in graphs else None
                if parent and parent != cur and parent in sets and (frm, to) in sets[parent]:
                    cur = parent
                else:
                    break
            out[(d, frm, to)] = cur
    return out


# ---------------------------------------------------------------- lexer
def char_sample() -> List[str]:
    """All ASCII characters + two characters of every Unicode general category + a few notorious ones."""
    out = [chr(i) for i in range(128)]
    per: Dict[str, int] = {}
    for cp in range(128, 0x30000):
        c = unicodedata.category(chr(cp))
        if per.get(c, 0) < 2:
            per[c] = per.get(c, 0) + 1
            out.append(chr(cp))
    out += [" ", "​", "‮", "﻿", "\U0001F600", "́", " ", " ", "\ud800", "\U0010ffff", "\x85"]
    seen, res = set(), []
    for c in out:
        if c not in seen:
            seen.add(c)
            res.append(c)
    return res


def lex_chars(label: str) -> Dict[str, Any]:
    """Lex every sample character on its own with the dialect's lexer; project what came out."""
    from sqlfluff.core.parser.lexer import PyLexer

    ev: List[dict] = []
    load: Dict[str, Any] = {"ev": "Load", "loaded": False, "root_defined": False, "nmatchers": 0}
    try:
        from sqlfluff.core.dialects import dialect_selector

        dia = dialect_selector(label)
        load.update({"loaded": bool(dia.expanded), "root_defined": dia.root_segment_name in dia._library,
                     "nmatchers": len(dia.get_lexer_matchers())})
        lx = PyLexer(dialect=label)
    except Exception as e:  # noqa: BLE001
        load["error"] = f"{type(e).__name__}: {e}"
        return {"id": label, "events": [load]}
    ev.append(load)
    for c in char_sample():
        e: Dict[str, Any] = {"ev": "Lex", "cp": ord(c), "cat": unicodedata.category(c), "crashed": False}
        try:
            toks, errs = lx.lex(c)
            e["lossless"] = "".join(t.raw for t in toks) == c
            e["nunlexable"] = sum(1 for t in toks if t.is_type("unlexable"))
            e["nlxr"] = sum(1 for x in errs if x.rule_code() == "LXR")
            e["nerr"] = len(errs)
            e["ntok"] = sum(1 for t in toks if not t.is_meta)
        except Exception as x:  # noqa: BLE001
            e.update({"crashed": True, "lossless": False, "nunlexable": 0, "nlxr": 0, "nerr": 0, "ntok": 0,
                      "error": f"{type(x).__name__}: {str(x)[:120]}"})
        ev.append(e)
    return {"id": label, "events": ev}
