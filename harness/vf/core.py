"""Report / evidence / known-findings plumbing shared by every property check."""
from __future__ import annotations

import hashlib
import json
import os
import re
import sys
import time
from typing import Any, Dict, List, Optional

from .tlc import VERIF, MachineryError, TLCRun, Validation

EVIDENCE_DIR = os.environ.get("VF_EVIDENCE_DIR") or os.path.join(VERIF, "evidence")  # overridden when trying a seeded change
REPLAY_DIR = os.path.join(VERIF, "replays")
FINDINGS_FILE = os.path.join(VERIF, "known_findings.json")
REPO = os.environ.get("VF_REPO", "/repo")


def h(obj: Any) -> str:
    return hashlib.sha256(json.dumps(obj, sort_keys=True, default=str).encode()).hexdigest()[:16]


def load_findings(prop: str) -> List[dict]:
    out: List[dict] = []
    for fn in (FINDINGS_FILE, os.environ.get("VF_FINDINGS")):
        if fn and os.path.exists(fn):
            with open(fn) as fh:
                data = json.load(fh)
            items = data.get("findings", []) if isinstance(data, dict) else data
            out += [f for f in items if f.get("property") == prop and f.get("status", "open") == "open"]
    return out


def _match(entry: dict, sig: Dict[str, Any]) -> bool:
    """An entry matches when every attribute it lists matches the violation's signature.

    Values are exact unless written as {"re": "..."} (full-match regex) or {"in": [...]}.
    """
    for k, want in entry.get("match", {}).items():
        have = sig.get(k)
        if isinstance(want, dict) and "re" in want:
            if have is None or not re.fullmatch(want["re"], str(have), flags=re.S):
                return False
        elif isinstance(want, dict) and "in" in want:
            if have not in want["in"]:
                return False
        elif have != want:
            return False
    return True


class Report:
    """Collects what a check run covered and what it found."""

    def __init__(self, prop: str, tier: str, seed: int, level: str):
        self.prop, self.tier, self.seed, self.level = prop, tier, seed, level
        self.t0 = time.time()
        self.evaluations = 0
        self._nontrivial: set = set()
        self.rule = ""
        self.samples: List[Any] = []
        self.states = 0
        self.transitions = 0
        self.traces = 0
        self.exhaustive: Optional[bool] = None
        self.trusted_base: List[str] = []
        self.assumptions: List[str] = []
        self.extra: Dict[str, Any] = {}
        self.violations: List[dict] = []
        self.drift: List[Any] = []
        self.models: List[dict] = []
        self.findings = load_findings(prop)
        self._known_hit: Dict[str, int] = {}
        self.proof: Optional[dict] = None

    # ---- coverage accounting -------------------------------------------------------------
    def model(self, run: TLCRun, what: str = "") -> None:
        self.states += run.distinct
        self.transitions += run.generated
        self.models.append(
            {"module": run.module, "what": what, "states_generated": run.generated,
             "distinct": run.distinct, "depth": run.depth, "wall_s": round(run.wall_s, 2)}
        )

    def validation(self, val: Validation, module: str) -> None:
        self.states += val.states
        self.transitions += val.transitions
        self.traces += val.traces
        self.models.append(
            {"module": module, "what": "trace validation", "traces": val.traces, "accepted": val.accepted,
             "rejected": len(val.rejected), "states_generated": val.transitions, "distinct": val.states,
             "wall_s": round(val.wall_s, 2)}
        )

    def evaluated(self, n: int = 1) -> None:
        self.evaluations += n

    def nontrivial(self, key: Any) -> None:
        self._nontrivial.add(key if isinstance(key, (str, int)) else h(key))

    def sample(self, s: Any, cap: int = 4) -> None:
        if len(self.samples) < cap:
            self.samples.append(s)

    # ---- verdicts ------------------------------------------------------------------------
    def violation(self, clause: str, sig: Dict[str, Any], what: str, payload: Any) -> None:
        """Record one implementation behaviour that is not a behaviour of the contract."""
        sig = dict(sig)
        sig.setdefault("clause", clause)
        self.violations.append({"clause": clause, "sig": sig, "what": what, "payload": payload})

    def finish(self) -> int:
        new: List[dict] = []
        for v in self.violations:
            hit = None
            for f in self.findings:
                if _match(f, v["sig"]):
                    hit = f
                    break
            if hit is not None:
                self._known_hit[hit["key"]] = self._known_hit.get(hit["key"], 0) + 1
            else:
                new.append(v)
        for f in self.findings:
            if f["key"] in self._known_hit:
                print(f["line"] + f"  [{self._known_hit[f['key']]} instance(s) this run]")
        seen = set()
        code = 0
        for v in new:
            key = h(v["sig"])
            if key in seen:
                continue
            seen.add(key)
            d = os.path.join(REPLAY_DIR, self.prop)
            os.makedirs(d, exist_ok=True)
            path = os.path.join(d, key + ".json")
            with open(path, "w") as fh:
                json.dump({"property": self.prop, "clause": v["clause"], "signature": v["sig"], "what": v["what"],
                           "tier": self.tier, "seed": self.seed, "case": v["payload"]}, fh, indent=1, default=str)
            print(f"VIOLATION property={self.prop} replay={path}")
            print(f"  clause={v['clause']} {v['what']}")
            code = 1
            if len(seen) >= 25:
                print(f"  ... {len(new)} violating behaviours in total; first 25 distinct signatures written")
                break
        for d in self.drift[:10]:
            print(f"DRIFT property={self.prop} {d}")
        self.write_evidence(len(new))
        return code

    def write_evidence(self, nviol: int) -> None:
        cov: Dict[str, Any] = {
            "evaluations": self.evaluations,
            "distinct_nontrivial": len(self._nontrivial),
            "rule": self.rule,
            "samples": self.samples,
            "states": self.states,
            "transitions": self.transitions,
            "traces_validated_against_impl": self.traces,
            "trusted_base": self.trusted_base,
            "models": self.models,
            "known_findings_hit": self._known_hit,
            "drift": self.drift[:20],
        }
        if self.exhaustive is not None:
            cov["exhaustive"] = self.exhaustive
        if self.proof:
            cov.update(self.proof)
        cov.update(self.extra)
        ev = {
            "property_id": self.prop, "tier": self.tier, "seed": self.seed, "level": self.level,
            "coverage": cov, "assumptions": self.assumptions, "wall_s": round(time.time() - self.t0, 2),
            "violations": nviol,
        }
        os.makedirs(EVIDENCE_DIR, exist_ok=True)
        tmp = os.path.join(EVIDENCE_DIR, f".{self.prop}.json.tmp")
        with open(tmp, "w") as fh:
            json.dump(ev, fh, indent=1, default=str)
        os.replace(tmp, os.path.join(EVIDENCE_DIR, f"{self.prop}.json"))


def expect_model_ok(run: TLCRun, what: str) -> None:
    """A model that is expected to satisfy its invariants and does not is a machinery failure."""
    if not run.ok:
        raise MachineryError(f"model run '{what}' ({run.module}) violated {run.violated}:\n{run.stdout[-3000:]}")


def eprint(*a: Any) -> None:
    print(*a, file=sys.stderr)
