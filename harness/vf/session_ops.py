"""One *session* for C32: execute a history of operations in this python process and print one JSON line per
operation with its complete result.  Run as `python -m vf.session_ops <tree> <json history>` in a fresh
subprocess (the driver starts one per history; baselines are histories of length one).

Nothing here judges anything: the results are compared by SessionTrace (TLC) as interned ids.
The operations and files mirror Sym in spec/Session.tla.
"""
from __future__ import annotations

import json
import os
import sys

# file symbol -> path relative to the tree root
PATHS = {
    "blocks": "blocks.sql",
    "noqa_except": os.path.join("noqa", "except.sql"),
    "nested": os.path.join("nested", "deep", "n.sql"),
    "inline": "inline.sql",
    "prs": "prs.sql",
    "variants": "variants.sql",
    "plain": "plain.sql",
}

FILES = {
    ".sqlfluff": "[sqlfluff]\ndialect = ansi\ntemplater = jinja\n\n[sqlfluff:templater:jinja:context]\ntbl = root_tbl\n",
    "blocks.sql": (
        "SELECT\n    a,\n{% for c in ['x', 'y', 'z'] %}\n    {% if c != 'y' %}\n    sum({{ c }})  AS {{ c }}_total,\n"
        "    {% else %}\n  max({{ c }}) as {{ c }}_max,\n    {% endif %}\n{% endfor %}\n    b\nfrom {{ tbl }}\n"
        "{% if false %}\nWHERE a  > 1\n{% endif %}\ngroup by a, b\n"
    ),
    "noqa/.sqlfluff": "[sqlfluff]\ndisable_noqa_except = LT01,CP0*\n",
    "noqa/except.sql": (
        "SELECT a  FROM t1; -- noqa: LT01\nSELECT b  from t2; -- noqa: CP01\nselect c  FROM t3; -- noqa: AL01,LT01\n"
        "SELECT d  FROM t4 AS x; -- noqa\nSELECT e  FROM t5 x; -- noqa: AL01\nSELECT 1 +  + FROM ; -- noqa: PRS\n"
    ),
    "nested/.sqlfluff": "[sqlfluff]\ndialect = postgres\nmax_line_length = 40\n\n[sqlfluff:templater:jinja:context]\ntbl = nested_tbl\nsuffix = _arch\n",
    "nested/deep/.sqlfluff": "[sqlfluff:rules:capitalisation.keywords]\ncapitalisation_policy = lower\n",
    "nested/deep/n.sql": (
        "SELECT a::int  AS a_int, b FROM {{ tbl }} WHERE b ILIKE 'x%' AND c ~ '^y'\n"
        "{% if tbl == 'nested_tbl' %}\nORDER BY a NULLS FIRST\n{% endif %}\n;\nselect distinct on (a) a, b from {{ tbl }};\n"
    ),
    "inline.sql": (
        "-- sqlfluff:dialect:tsql\n-- sqlfluff:max_line_length:30\n-- sqlfluff:rules:capitalisation.keywords:capitalisation_policy:upper\n"
        "select TOP 5 [a], b  from [dbo].[t] where x = 1;\n"
    ),
    "prs.sql": "SELECT a  FROM t WHERE +;\nSELECT  b from u;\nSELECT 1 +  + FROM ; -- noqa: PRS\n",
    "variants.sql": (
        "SELECT\n    a\n    {% if undefined_flag %}\n    , b  AS bb\n    {% else %}\n    , c as cc\n    {% endif %}\n"
        "FROM {{ tbl }}{{ suffix }}\n{% if other_flag %}\nwhere x  = 1\n{% endif %}\n"
    ),
    "plain.sql": "select a,b  from t  where x=1 and y in (select  z from u)\norder by a\n",
}


def write_tree(root: str) -> None:
    for rel, text in FILES.items():
        p = os.path.join(root, rel)
        os.makedirs(os.path.dirname(p), exist_ok=True)
        with open(p, "w", newline="") as fh:
            fh.write(text)


_LINTER = None


def shared_linter():
    """The one Linter that every "api" operation of a session reuses."""
    global _LINTER
    if _LINTER is None:
        from sqlfluff.core import FluffConfig, Linter

        _LINTER = Linter(config=FluffConfig.from_root())
    return _LINTER


def _viols(vs):
    return [[v.rule_code(), v.line_no, v.line_pos, v.desc(), bool(getattr(v, "warning", False))] for v in vs]


def _cli(cmd, args, stdin=None):
    from click.testing import CliRunner

    r = CliRunner().invoke(cmd, args, input=stdin)
    exc = None
    if r.exception is not None and not isinstance(r.exception, SystemExit):
        exc = f"{type(r.exception).__name__}: {r.exception}"
    return r.output, r.exit_code, exc


def _lint_payload(text: str, fmt: str):
    """Project the CLI's serialised lint output to (file, violations); timings/statistics are dropped."""
    import yaml

    try:
        data = json.loads(text) if fmt == "json" else yaml.safe_load(text)
    except Exception as e:  # the raw text is the result then
        return {"unparsed": text, "error": type(e).__name__}
    out = []
    for f in data:
        out.append([f.get("filepath"), [[v.get("code"), v.get("start_line_no"), v.get("start_line_pos"), v.get("description"),
                                         v.get("name"), v.get("warning"), v.get("fixes")] for v in f.get("violations", [])]])
    return out


def run_op(op: dict):
    from sqlfluff.cli import commands

    rel = PATHS[op["file"]]
    kind, via = op["op"], op["via"]
    if via.startswith("cli"):
        fmt = via.split("-")[1] if "-" in via else None
        if kind == "lint":
            out, code, exc = _cli(commands.lint, [rel, "--format", fmt, "--nocolor"])
            return {"violations": _lint_payload(out, fmt), "exit": code, "exc": exc}
        if kind == "parse":
            out, code, exc = _cli(commands.parse, [rel, "--format", fmt, "--nocolor"])
            return {"record": out, "exit": code, "exc": exc}
        if kind == "render":
            out, code, exc = _cli(commands.render, [rel, "--nocolor"])
            return {"rendered": out, "exit": code, "exc": exc}
        raise ValueError(op)
    lnt = shared_linter()
    if via == "api":
        if kind == "lint":
            res = lnt.lint_paths((rel,))
            return {"violations": [[lf.path, _viols(lf.get_violations())] for p in res.paths for lf in p.files]}
        if kind == "fix":
            res = lnt.lint_paths((rel,), fix=True)
            return {"fixed": [[lf.path, list(lf.fix_string()), _viols(lf.get_violations())] for p in res.paths for lf in p.files]}
        if kind == "render":
            r = lnt.render_file(rel, lnt.config)
            return {"rendered": [tf.templated_str for tf in r.templated_variants],
                    "violations": _viols(r.templater_violations)}
        raise ValueError(op)
    if via == "api-string":
        with open(rel, newline="") as fh:
            text = fh.read()
        if kind == "lint":
            lf = lnt.lint_string(text, fname=rel)
            return {"violations": _viols(lf.get_violations())}
        if kind == "parse":
            p = lnt.parse_string(text, fname=rel)
            return {"record": [v.tree.as_record(show_raw=True) if v.tree else None for v in p.parsed_variants],
                    "violations": _viols(p.violations)}
    raise ValueError(op)


def main(argv) -> int:
    tree, history = argv[1], json.loads(argv[2])
    os.chdir(tree)
    from sqlfluff.core.parser.lexer import BlockTracker

    for op in history:
        try:
            result = run_op(op)
        except Exception as e:  # a crash is a result too (and is compared like any other)
            result = {"raised": f"{type(e).__name__}: {e}"}
        stack = len(getattr(BlockTracker, "_stack", []))
        sys.stdout.write("VFOP " + json.dumps({"op": op, "result": json.dumps(result, sort_keys=True, default=str),
                                               "stack": stack}) + "\n")
        sys.stdout.flush()
    return 0


if __name__ == "__main__":
    sys.exit(main(sys.argv))
