"""Recorder for the fix loop ("fix suite"): C12, C13, C14, C15, C17.

Nothing in here judges anything.  It installs wrappers at three function boundaries that exist in the code
(no source change)

    BaseRule.crawl                                  -> event Crawl(rule, tree id, #fixes returned)
    sqlfluff.core.linter.linter.apply_fixes         -> event Apply(rule, from, to, version, valid, changed, tokens)
    Linter.lint_fix_parsed                          -> events Begin(tree, version, tokens) ... FixEnd(tree, limit_hit, discarded)

(`apply_fixes` is wrapped under the name imported into core/linter/linter.py, so only the loop's own
top-level call is seen, not the recursion inside fix.py), plus a logging handler on `sqlfluff.linter` that
notes the loop's "Loop limit on fixes reached" warning — the only outside-visible trace of the limit branch
besides its effect.  A file-level recording (`record_case`) runs fix on an input with a given rule
selection/config, re-lexes the fixed tree's text, re-lints (fix mode) the fixed source — which yields the
re-parse clean bit, the tokens of the re-rendered SQL and the second fix run — and writes one trace.

Projection (the trusted base): trees/token lists become two parallel int lists `t` (interned text id, 0 is
the empty string) and `k` (index into the trace's kind table: lexical class ws/nl/cm/code + segment type),
over the non-meta raw segments; the trace carries the tables fold[id] = id(casefold(text)) and
rst[id] = id(text.rstrip()).  Tree ids and version ids are small integers interned per trace (trees by the
segment uuid, versions by (raw, source_fixes) — the key the loop itself uses).  All comparisons are done
by TLC in spec/FixContract.tla.
"""
from __future__ import annotations

import contextlib
import fcntl
import gzip
import hashlib
import json
import logging
import os
from typing import Any, Dict, List, Optional

from .tlc import VERIF, MachineryError

CACHE = os.path.join(VERIF, ".cache")
MAXTOK = 6000  # inputs whose tree has more leaves than this are not recorded (trace size)


# ------------------------------------------------------------------------------------ projection
class Tables:
    """Per-trace interning of texts, kinds, trees and versions."""

    def __init__(self) -> None:
        self.text: Dict[str, int] = {"": 0}
        self.texts: List[str] = [""]
        self.kind: Dict[tuple, int] = {}
        self.kinds: List[tuple] = []
        self.quote_kinds = False
        self.tree: Dict[int, int] = {}
        self.ver: Dict[Any, int] = {}

    def tid(self, s: str) -> int:
        i = self.text.get(s)
        if i is None:
            i = self.text[s] = len(self.texts)
            self.texts.append(s)
        return i

    def kid(self, cls: str, typ: str) -> int:
        key = (cls, typ)
        i = self.kind.get(key)
        if i is None:
            i = self.kind[key] = len(self.kinds)
            self.kinds.append(key)
        return i

    def tree_id(self, seg) -> int:
        return self.tree.setdefault(seg.uuid, len(self.tree))

    def ver_id(self, seg) -> int:
        key = (seg.raw, repr(tuple(seg.source_fixes)))
        return self.ver.setdefault(key, len(self.ver))

    def export(self) -> dict:
        # fold / rst may intern new texts while iterating: iterate by index until the tables close
        fold: List[int] = []
        rst: List[int] = []
        i = 0
        while i < len(self.texts):
            s = self.texts[i]
            fold.append(self.tid(s.casefold()))
            rst.append(self.tid(s.rstrip()))
            i += 1
        return {"fold": fold, "rst": rst, "kcls": [k[0] for k in self.kinds], "ktype": [k[1] for k in self.kinds]}


def lex_class(seg) -> str:
    if seg.is_type("newline"):
        return "nl"
    if seg.is_type("whitespace"):
        return "ws"
    if seg.is_comment:
        return "cm"
    return "code"


_QUOTE_PAIRS = {('"', '"'), ("`", "`"), ("[", "]"), ("'", "'")}


def leaf_type(seg) -> str:
    """The segment's type, except that a code token *written* in quotes whose type does not say so (several dialects
    give a quoted function or type name the same type as a bare one: `[MyFunc]`, `` `MyFunc` ``, `[Int]`) is reported
    as "quoted:<type>": C15's CaseKinds are the unquoted kinds, and what is quoted is a lexical fact."""
    typ = seg.get_type()
    r = seg.raw
    if len(r) >= 2 and (r[0], r[-1]) in _QUOTE_PAIRS and seg.is_code and "quoted" not in typ and "literal" not in typ:
        return "quoted:" + typ
    return typ


def project(segs, tb: Tables) -> dict:
    t, k = [], []
    for s in segs:
        if s.is_meta:
            continue
        t.append(tb.tid(s.raw))
        k.append(tb.kid(lex_class(s), leaf_type(s) if tb.quote_kinds else s.get_type()))
    return {"t": t, "k": k}


NOTOKS = {"t": [], "k": []}


# ------------------------------------------------------------------------------------ recorder
class _LimitWatch(logging.Handler):
    def __init__(self, rec: "Recorder") -> None:
        super().__init__(level=logging.WARNING)
        self.rec = rec

    def emit(self, record: logging.LogRecord) -> None:
        try:
            msg = record.getMessage()
        except Exception:
            return
        if msg.startswith("Loop limit on fixes reached"):
            self.rec.limit_seen = True


class Recorder:
    """Install with `with Recorder() as rec:`; `rec.start(tb)` begins a trace, `rec.events` collects it."""

    SEAMS = ("sqlfluff.core.rules.base.BaseRule.crawl", "sqlfluff.core.linter.linter.apply_fixes",
             "sqlfluff.core.linter.linter.Linter.lint_fix_parsed")

    def __init__(self) -> None:
        self.events: List[dict] = []
        self.tb: Optional[Tables] = None
        self.depth = 0
        self.limit_seen = False
        self.second = False
        self.variant = 0
        self.too_big = False
        self.with_toks = True
        self._undo: List[Any] = []

    # -- install / remove
    def __enter__(self) -> "Recorder":
        try:
            import sqlfluff.core.linter.linter as L
            from sqlfluff.core.rules.base import BaseRule
            o_crawl = BaseRule.crawl
            o_apply = L.apply_fixes
            o_lfp = L.Linter.__dict__["lint_fix_parsed"].__func__
        except (ImportError, AttributeError, KeyError) as e:
            raise MachineryError(f"fix recorder cannot install, missing seam ({self.SEAMS}): {e!r}")
        rec = self

        def crawl(self_rule, tree, *a, **kw):
            out = o_crawl(self_rule, tree, *a, **kw)
            if rec.tb is not None and rec.depth:
                rec.events.append({"ev": "Crawl", "rule": self_rule.code, "tree": rec.tb.tree_id(tree),
                                   "nfix": len(out[2])})
            return out

        def apply_fixes(segment, dialect, rule_code, fixes, *a, **kw):
            out = o_apply(segment, dialect, rule_code, fixes, *a, **kw)
            if rec.tb is not None and rec.depth:
                new = out[0]
                rec.events.append({
                    "ev": "Apply", "rule": rule_code, "from": rec.tb.tree_id(segment), "to": rec.tb.tree_id(new),
                    "ver": rec.tb.ver_id(new), "valid": bool(out[3]),
                    "changed": (new.raw, tuple(new.source_fixes)) != (segment.raw, tuple(segment.source_fixes)),
                    "toks": project(new.raw_segments, rec.tb) if rec.with_toks else NOTOKS, "has": rec.with_toks})
            return out

        def lint_fix_parsed(cls, tree, config, rule_pack, fix=False, *a, **kw):
            if rec.tb is None or not fix:
                return o_lfp(cls, tree, config, rule_pack, fix, *a, **kw)
            toks = project(tree.raw_segments, rec.tb) if rec.with_toks else NOTOKS
            if len(toks["t"]) > MAXTOK:
                rec.too_big = True
            first = len(rec.events)
            rec.events.append({"ev": "Begin", "tree": rec.tb.tree_id(tree), "ver": rec.tb.ver_id(tree), "toks": toks,
                               "second": rec.second, "variant": rec.variant})
            rec.variant += 1
            rec.depth += 1
            rec.limit_seen = False
            try:
                out = o_lfp(cls, tree, config, rule_pack, fix, *a, **kw)
            finally:
                rec.depth -= 1
            from sqlfluff.core.errors import SQLLintError
            lerrs = [v for v in out[1] if isinstance(v, SQLLintError)]
            end = rec.tb.tree_id(out[0])
            rec.events.append({"ev": "FixEnd", "tree": end, "ver": rec.tb.ver_id(out[0]), "limit": rec.limit_seen,
                               "discarded": all(not v.fixes for v in lerrs), "nviol": len(lerrs)})
            # size only: token lists of trees that the loop never continued with are dropped
            used = {e["tree"] for e in rec.events[first:] if e["ev"] in ("Crawl", "FixEnd")}
            for e in rec.events[first:]:
                if e["ev"] == "Apply" and e["to"] not in used:
                    e["toks"], e["has"] = NOTOKS, False
            return out

        BaseRule.crawl = crawl
        L.apply_fixes = apply_fixes
        L.Linter.lint_fix_parsed = classmethod(lint_fix_parsed)
        h = _LimitWatch(self)
        lg = logging.getLogger("sqlfluff.linter")
        # the watcher needs WARNING records of this logger whatever level other harness code gave it
        old = (lg.level, lg.disabled, logging.root.manager.disable)
        lg.setLevel(logging.WARNING)
        lg.disabled = False
        if old[2] >= logging.WARNING:
            logging.disable(logging.NOTSET)
        lg.addHandler(h)

        def undo():
            BaseRule.crawl = o_crawl
            L.apply_fixes = o_apply
            L.Linter.lint_fix_parsed = classmethod(o_lfp)
            lg.removeHandler(h)
            lg.setLevel(old[0])
            lg.disabled = old[1]
            logging.disable(old[2])

        # self-test of the only observation that is not a function boundary
        self.limit_seen = False
        L.linter_logger.warning("Loop limit on fixes reached [recorder self-test].")
        if not self.limit_seen:
            undo()
            raise MachineryError("fix recorder: the loop-limit warning of sqlfluff.linter is not observable (logger silenced?)")
        self.limit_seen = False

        self._undo.append(undo)
        return self

    def __exit__(self, *exc) -> None:
        while self._undo:
            self._undo.pop()()

    def start(self, tb: Tables) -> None:
        self.tb, self.events, self.second, self.variant, self.too_big = tb, [], False, 0, False

    def stop(self) -> List[dict]:
        ev, self.tb = self.events, None
        return ev


# ------------------------------------------------------------------------------------ file-level recording
_CFG: Dict[str, Any] = {}


def _config(case: dict):
    from sqlfluff.core import FluffConfig, Linter

    key = json.dumps([case.get("configs"), case.get("rules"), case.get("dialect"), case.get("over")], sort_keys=True)
    if key not in _CFG:
        import copy
        configs = copy.deepcopy(case.get("configs")) or None
        ov: Dict[str, Any] = dict(case.get("over") or {})
        if case.get("rules"):
            ov["rules"] = case["rules"]
        core = (configs or {}).get("core", {})
        if not (isinstance(core, dict) and "dialect" in core):
            ov["dialect"] = case.get("dialect") or "ansi"
        from sqlfluff.core.parser import Lexer

        cfg = FluffConfig(configs=configs, overrides=ov)
        _CFG[key] = (cfg, Linter(config=cfg), Lexer(config=cfg))
    return _CFG[key]


def _unclean(violations) -> int:
    from sqlfluff.core.errors import SQLLexError, SQLParseError, SQLTemplaterError

    return sum(1 for v in violations if isinstance(v, (SQLTemplaterError, SQLLexError, SQLParseError)))


def quiet_logs() -> None:
    """Keep the code's warnings off stderr (the limit watcher still sees them)."""
    logging.getLogger("sqlfluff").setLevel(logging.WARNING)
    for name in ("sqlfluff.linter", "sqlfluff.rules", "sqlfluff.templater", "sqlfluff.lexer", "sqlfluff.parser",
                 "sqlfluff.config"):
        lg = logging.getLogger(name)
        lg.propagate = False
        if not any(isinstance(h, logging.NullHandler) for h in lg.handlers):
            lg.addHandler(logging.NullHandler())


def record_case(case: dict) -> dict:
    """case: {id, sql, dialect, rules, configs?, over?, mode} -> trace dict (see module docstring)."""
    tb = Tables()
    tb.quote_kinds = case.get("mode") == "cap"      # C15 only: its CaseKinds are the *unquoted* kinds (see leaf_type)
    out: Dict[str, Any] = {"id": case["id"], "mode": case.get("mode", "any"), "clean0": False, "status": "ok",
                           "idem_required": False, "events": []}
    quiet_logs()
    try:
        cfg, lnt, lexer = _config(case)
    except Exception as e:  # a config the code rejects is not a fix run
        out["status"] = f"config:{type(e).__name__}"
        return out
    fname = case.get("fname") or "verif_case.sql"
    with Recorder() as rec:
        rec.start(tb)
        try:
            lf = lnt.lint_string(case["sql"], fname=fname, fix=True)
        except Exception as e:
            rec.stop()
            out["status"] = f"crash1:{type(e).__name__}"
            return out
        if lf.tree is None or rec.too_big or not rec.events:
            rec.stop()
            out["status"] = "notree" if lf.tree is None else ("toobig" if rec.too_big else "nofixrun")
            return out
        out["clean0"] = _unclean(lf.violations) == 0
        try:
            fixed, _ok = lf.fix_string()
        except Exception as e:
            rec.stop()
            out["status"] = f"crashfix:{type(e).__name__}"
            return out
        out["fixed"] = fixed
        out["changed_text"] = fixed != case["sql"]
        # re-lex the text of the fixed tree (what the loop's own validity check never does)
        try:
            toks, lerrs = lexer.lex(lf.tree.raw)
            rec.events.append({"ev": "Relex", "toks": project(toks, tb), "nerr": len(lerrs)})
        except Exception as e:
            rec.events.append({"ev": "Relex", "toks": NOTOKS, "nerr": 1, "crash": type(e).__name__})
        # second run on the fixed source: re-parse clean bit, tokens of the re-rendered SQL, idempotence
        rec.second = True
        rec.variant = 0
        mark = len(rec.events)
        rec.events.append(None)  # placeholder for Reparse, filled below
        try:
            lf2 = lnt.lint_string(fixed, fname=fname, fix=True)
            clean1 = lf2.tree is not None and _unclean(lf2.violations) == 0
            fixed2 = lf2.fix_string()[0] if lf2.tree is not None else fixed
            rec.events[mark] = {"ev": "Reparse", "clean0": out["clean0"], "clean1": clean1}
            rec.events.append({"ev": "Second", "same": fixed2 == fixed})
            out["fixed2"] = fixed2 if fixed2 != fixed else None
        except Exception as e:
            # the fixed text cannot be processed at all: not clean; the interrupted second run is cut off
            del rec.events[mark:]
            rec.events.append({"ev": "Reparse", "clean0": out["clean0"], "clean1": False, "crash": type(e).__name__})
            out["status"] = f"crash2:{type(e).__name__}"
        out["events"] = rec.stop()
    out.update(tb.export())
    out["texts"] = list(tb.texts)
    out["ntok"] = len(out["events"][0]["toks"]["t"])
    return out


def record_engine(tree, config, pack, tb: Tables, rec: Recorder, second: bool) -> Any:
    """S->C: one direct call of the real Linter.lint_fix_parsed under the recorder (used by fixloop_replay)."""
    from sqlfluff.core import Linter

    rec.second = second
    rec.variant = 0
    return Linter.lint_fix_parsed(tree, config=config, rule_pack=pack, fix=True, fname="verif_engine.sql")


# ------------------------------------------------------------------------------------ cache
def harness_digest(*modules: str) -> str:
    hsh = hashlib.sha256()
    for m in sorted(modules):
        with open(m, "rb") as fh:
            hsh.update(fh.read())
    return hsh.hexdigest()[:12]


@contextlib.contextmanager
def _locked(path: str):
    os.makedirs(os.path.dirname(path), exist_ok=True)
    with open(path + ".lock", "w") as lk:
        fcntl.flock(lk, fcntl.LOCK_EX)
        try:
            yield
        finally:
            fcntl.flock(lk, fcntl.LOCK_UN)


def cached(name: str, tier: str, seed: int, build, deps: List[str]) -> tuple:
    """Return (value, 'hit'|'miss').  Key = source digest of the tree under test + harness files + name/tier/seed,
    so a recording is never reused across different source trees (or a different recorder)."""
    from . import sq

    if os.environ.get("VF_NOCACHE"):
        return build(), "off"
    key = f"{sq.src_digest()}-{harness_digest(*deps)}"
    path = os.path.join(CACHE, "fix", key, f"{name}-{tier}-{seed}.json.gz")
    with _locked(path):
        if os.path.exists(path):
            try:
                with gzip.open(path, "rt") as fh:
                    return json.load(fh), "hit"
            except Exception:
                os.remove(path)
        val = build()
        tmp = path + ".tmp"
        with gzip.open(tmp, "wt", compresslevel=3) as fh:
            json.dump(val, fh)
        os.replace(tmp, path)
        _prune(os.path.join(CACHE, "fix"), keep=key)
        return val, "miss"


def _prune(root: str, keep: str, cap: int = 6) -> None:
    try:
        ds = sorted((d for d in os.listdir(root) if d != keep), key=lambda d: os.path.getmtime(os.path.join(root, d)))
    except OSError:
        return
    import shutil
    for d in ds[: max(0, len(ds) - cap)]:
        shutil.rmtree(os.path.join(root, d), ignore_errors=True)
