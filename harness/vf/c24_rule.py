"""A user-defined rule handed to `Linter(user_rules=[...])` in C24's API runs (DESIGN §6-F22)."""
from sqlfluff.core.rules import BaseRule, LintResult, RuleContext
from sqlfluff.core.rules.crawlers import SegmentSeekerCrawler


class Rule_ZZ01(BaseRule):
    """Tables must not be called ``forbidden_tbl``.

    **Anti-pattern**

    .. code-block:: sql

        SELECT a FROM forbidden_tbl

    **Best practice**

    .. code-block:: sql

        SELECT a FROM tbl
    """

    name = "verif.forbidden_table"
    groups = ("all",)
    crawl_behaviour = SegmentSeekerCrawler({"table_reference"})
    is_fix_compatible = False

    def _eval(self, context: RuleContext):
        if context.segment.raw.lower().startswith("t"):
            return LintResult(anchor=context.segment, description="Table reference starts with t.")
        return None
