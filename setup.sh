#!/bin/sh
# MANIFEST.setup_cmd: offline sanity check of the toolchain and SANY-parse of every specification.
set -e
cd "$(dirname "$0")"
mkdir -p .cache evidence replays
PYTHONPATH="$PWD/harness" exec /venv/bin/python -B -m vf.setup
